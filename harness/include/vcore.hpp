// vcore.hpp - shared core of the verification harness.
//
// A *case* is a "tape": a finite vector of uint32 words.  Every property check is a pure
// function  void check(Tape&, Ctx&)  that decodes its structured input from the tape
// (0 always decodes to the simplest choice, an exhausted tape yields zeros) and records a
// verdict in Ctx.  Three front ends feed the same function:
//   * rapidcheck  (--rc)      generator = fixed-length container of arbitrary<uint32>, integrated shrinking
//   * libFuzzer   (fuzz_*.cpp) bytes -> words
//   * replay      (--replay f) text file -> words, bypassing both libraries
// No RNG, clock or address-dependent value is consulted inside a check.
#pragma once
#include <cstdint>
#include <cstdio>
#include <cstdlib>
#include <cstring>
#include <cmath>
#include <cfloat>
#include <climits>
#include <string>
#include <vector>
#include <map>
#include <set>
#include <sstream>
#include <fstream>
#include <iostream>
#include <iomanip>
#include <algorithm>
#include <functional>
#include <memory>
#include <array>
#include <limits>
#include <unistd.h>
#include <fcntl.h>
#include <signal.h>

namespace vf {

// ---------------------------------------------------------------- tape
struct Tape {
  const uint32_t* d = nullptr;
  size_t n = 0;
  size_t pos = 0;
  Tape() {}
  Tape(const std::vector<uint32_t>& v) : d(v.data()), n(v.size()) {}
  Tape(const uint32_t* p, size_t k) : d(p), n(k) {}
  uint32_t raw() { uint32_t v = (pos < n) ? d[pos] : 0u; ++pos; return v; }
  // integer in [lo,hi], 0 -> lo
  int range(int lo, int hi) {
    uint64_t span = (uint64_t)((int64_t)hi - (int64_t)lo) + 1u;
    return (int)((int64_t)lo + (int64_t)(raw() % span));
  }
  // integer in [lo,hi] where 0 -> `zero` (a preferred simplest value inside the range)
  int rangez(int lo, int hi, int zero) {
    uint64_t span = (uint64_t)((int64_t)hi - (int64_t)lo) + 1u;
    uint64_t off = (uint64_t)((int64_t)zero - (int64_t)lo);
    return (int)((int64_t)lo + (int64_t)((raw() + off) % span));
  }
  // signed integer in [-m,m], 0 -> 0, small words -> small magnitude (1,-1,2,-2,...)
  int sym(int m) {
    uint32_t v = raw() % (2u * (uint32_t)m + 1u);
    return (v & 1u) ? (int)((v + 1u) / 2u) : -(int)(v / 2u);
  }
  bool flag() { return (raw() & 1u) != 0; }
  // true with probability about num/den ; 0 -> false
  bool chance(unsigned num, unsigned den) { return (raw() % den) >= (den - num); }
  template <class T> const T& pick(const std::vector<T>& v) { return v[raw() % v.size()]; }
  int pickw(std::initializer_list<int> weights) {  // weighted choice, 0 -> first
    unsigned tot = 0; for (int w : weights) tot += (unsigned)w;
    unsigned r = raw() % tot; int i = 0;
    for (int w : weights) { if (r < (unsigned)w) return i; r -= (unsigned)w; ++i; }
    return 0;
  }
  size_t used() const { return pos < n ? pos : n; }
};

inline uint64_t fnv1a(const uint32_t* d, size_t n, uint64_t h = 1469598103934665603ull) {
  for (size_t i = 0; i < n; ++i) {
    uint32_t w = d[i];
    for (int b = 0; b < 4; ++b) { h ^= (uint64_t)((w >> (8 * b)) & 0xffu); h *= 1099511628211ull; }
  }
  return h;
}

// ---------------------------------------------------------------- number helpers (all exact, no RNG)
inline double pow2i(int e) { return std::ldexp(1.0, e); }
inline double pow10i(int m) {
  static const double tab[] = {1e-12,1e-11,1e-10,1e-9,1e-8,1e-7,1e-6,1e-5,1e-4,1e-3,1e-2,1e-1,1e0,1e1,1e2,1e3,1e4,1e5,1e6,1e7,1e8,1e9,1e10,1e11,1e12};
  if (m < -12) m = -12; if (m > 12) m = 12; return tab[m + 12];
}
inline double ulp_of(double x) {
  x = std::fabs(x);
  if (!std::isfinite(x)) return x;
  double n = std::nextafter(x, INFINITY);
  return n - x;
}
inline uint64_t dbits(double x) { uint64_t u; std::memcpy(&u, &x, 8); return u; }
inline bool same_bits(double a, double b) { return dbits(a) == dbits(b); }
// bitwise equality where +0 and -0 are considered equal and NaN==NaN
inline bool same_val(double a, double b) {
  if (a == b) return true;
  if (std::isnan(a) && std::isnan(b)) return true;
  return false;
}
inline std::string hexd(double x) { char b[64]; std::snprintf(b, sizeof b, "%a", x); return b; }
inline std::string g17(double x) { char b[64]; std::snprintf(b, sizeof b, "%.17g", x); return b; }
inline std::string g6(double x) { char b[64]; std::snprintf(b, sizeof b, "%.6g", x); return b; }
inline std::string lg(long double x) { char b[64]; std::snprintf(b, sizeof b, "%.6Lg", x); return b; }

inline uint32_t mix32(uint32_t x) {
  x ^= x >> 16; x *= 0x7feb352dU; x ^= x >> 15; x *= 0x846ca68bU; x ^= x >> 16; return x;
}

// one coefficient value from a word: 0 -> 0, small words -> small integers / simple fractions
inline double coef_from_word(uint32_t w) {
  if (w == 0) return 0.0;
  int cls = (int)(w % 5u);
  uint32_t r = w / 5u;
  int k = (int)(r % 1281u) - 640;     // [-640, 640]
  uint32_t r2 = r / 1281u;
  switch (cls) {
    case 0: return (double)((int)(w % 17u) - 8);           // small integer
    case 1: return k / 64.0;
    case 2: return k / 64.0 * pow10i((int)(r2 % 8u) - 3);  // 1e-3 .. 1e4
    case 3: return k == 0 ? 1.0 : (double)k * pow2i((int)(r2 % 41u) - 20);
    default: return (r2 % 7u == 0) ? 0.0 : k / 64.0 * pow10i((int)(r2 % 13u) - 6);
  }
}


// ---------------------------------------------------------------- context / statistics
struct KnownFinding { std::string id; std::map<std::string, double> num; };

struct Ctx {
  // verdict of the current case
  bool failed = false;
  std::string fail_class;   // short machine-readable class of the failure
  std::string fail_msg;     // human-readable detail
  bool nontrivial = false;  // set by the check when the case meets the property's stated non-triviality rule
  bool want_desc = false;   // harness asks the check to describe the case (for evidence samples / replay)
  std::ostringstream desc;  // JSON fragment (object body) describing the case, written only if want_desc
  std::vector<std::string> labels;  // class labels of this case (merged into counters by the harness)
  std::map<std::string, double> maxima;  // per-case measured maxima (e.g. worst normalised error)
  std::vector<std::string> known_hits;   // known-finding ids this case fell into (excluded from verdict)
  std::string known_detail;
  const std::vector<KnownFinding>* known = nullptr;
  bool verbose = false;

  void reset() {
    failed = false; fail_class.clear(); fail_msg.clear(); nontrivial = false;
    desc.str(""); desc.clear(); labels.clear(); maxima.clear(); known_hits.clear(); known_detail.clear();
  }
  void label(const std::string& s) { labels.push_back(s); }
  void maxi(const std::string& k, double v) {
    if (std::isnan(v)) v = INFINITY;
    auto it = maxima.find(k);
    if (it == maxima.end()) maxima[k] = v; else if (v > it->second) it->second = v;
  }
  void fail(const std::string& cls, const std::string& msg) {
    if (failed) return;  // keep the first failure
    failed = true; fail_class = cls; fail_msg = msg;
  }
  // parameter of an OPEN known finding (NaN when the finding is not listed/open)
  double kf(const std::string& id, const std::string& key) const {
    if (!known) return NAN;
    for (auto& k : *known) if (k.id == id) { auto it = k.num.find(key); return it == k.num.end() ? NAN : it->second; }
    return NAN;
  }
  bool kf_listed(const std::string& id) const {
    if (!known) return false;
    for (auto& k : *known) if (k.id == id) return true;
    return false;
  }
  void known_hit(const std::string& id, const std::string& detail) {
    if (std::find(known_hits.begin(), known_hits.end(), id) == known_hits.end()) known_hits.push_back(id);
    if (known_detail.empty()) known_detail = detail;
  }
};

#define VFAIL(ctx, cls, ...)                       \
  do {                                             \
    std::ostringstream _vf_o;                      \
    _vf_o << __VA_ARGS__;                          \
    (ctx).fail((cls), _vf_o.str());                \
    return;                                        \
  } while (0)
#define VCHECK(ctx, cond, cls, ...) \
  do { if (!(cond)) VFAIL(ctx, cls, __VA_ARGS__); } while (0)
// like VFAIL but does not return (for use in lambdas / nested helpers); caller tests ctx.failed
#define VFAILNR(ctx, cls, ...)                     \
  do {                                             \
    std::ostringstream _vf_o;                      \
    _vf_o << __VA_ARGS__;                          \
    (ctx).fail((cls), _vf_o.str());                \
  } while (0)

using CheckFn = std::function<void(Tape&, Ctx&)>;

struct PropDef {
  std::string name;        // e.g. "C03"
  std::string variant;     // free text: which instantiation (dim/order) lives in this binary
  size_t tape_len = 256;   // words generated per case
  uint64_t enum_count = 0; // >0: word 0 of the tape is enumerated 0..enum_count-1 in order instead of generated
  CheckFn fn;
  std::function<bool(std::string&)> selftest;  // optional oracle self-test (returns false + message on failure)
};

std::vector<PropDef>& registry();
struct Registrar { Registrar(PropDef p) { registry().push_back(std::move(p)); } };

int harness_main(int argc, char** argv);

}  // namespace vf
