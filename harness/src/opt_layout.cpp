// opt_layout.cpp - one binary per (spline order, dimension): -DVORDER=3|5|7 -DVDIM=1..3
//   C09  decision-vector layout, dimension, initial-guess round trip   ("C09" enumerated configurations, "C09h" reconfiguration histories)
//   C15  copies of optimizers (and splines) are independent deep copies
#include "opt_common.hpp"

#ifndef VDIM
#define VDIM 2
#endif
#ifndef VORDER
#define VORDER 5
#endif

using namespace vf;
using namespace SplineTrajectory;

namespace lay {

constexpr int D = VDIM;
constexpr int S = (VORDER + 1) / 2;
using Spline = typename SplineOf<D, S>::type;
using MatrixType = typename Spline::MatrixType;
using Vec = Eigen::Matrix<double, D, 1>;
using OptD = SplineOptimizer<D, Spline>;
using OptU = SplineOptimizer<D, Spline, UserTimeMap, UserSpatialMap<D>>;
const char* oname() { return SplineOf<D, S>::name(); }

struct Problem {
  std::vector<double> T; MatrixType P; BoundaryConditions<D> bc; double t0 = 0;
  int N() const { return (int)T.size(); }
};

Problem gen_problem(Tape& t, int N) {
  Problem p;
  p.T.resize(N);
  for (auto& x : p.T) x = 0.5 + t.range(0, 3584) / 1024.0;  // 0.5 .. 4 s on a 1/1024 grid (a 1/16 grid never came within 5 % of T = 1, where the default time map switches branch: seeded C09-3)
  p.P.resize(N + 1, D);
  for (int i = 0; i <= N; ++i) for (int d = 0; d < D; ++d) p.P(i, d) = t.sym(320) / 32.0;
  // every boundary field non-zero so that a pinned field is distinguishable from a default
  auto fill = [&](Vec& v, double sc) { for (int d = 0; d < D; ++d) { int k = t.sym(48); if (k == 0) k = 5 + d; v(d) = k / 16.0 * sc; } };
  fill(p.bc.start_velocity, 1); fill(p.bc.start_acceleration, 0.5); fill(p.bc.start_jerk, 0.25);
  fill(p.bc.end_velocity, 1); fill(p.bc.end_acceleration, 0.5); fill(p.bc.end_jerk, 0.25);
  p.t0 = t.sym(80) / 8.0;
  return p;
}

Vec& bcf(BoundaryConditions<D>& b, bool end, int m) {
  if (!end) return m == 1 ? b.start_velocity : (m == 2 ? b.start_acceleration : b.start_jerk);
  return m == 1 ? b.end_velocity : (m == 2 ? b.end_acceleration : b.end_jerk);
}
bool bc_same(const BoundaryConditions<D>& a, const BoundaryConditions<D>& b) {
  return vec_same_bits(a.start_velocity, b.start_velocity) && vec_same_bits(a.start_acceleration, b.start_acceleration) && vec_same_bits(a.start_jerk, b.start_jerk) &&
         vec_same_bits(a.end_velocity, b.end_velocity) && vec_same_bits(a.end_acceleration, b.end_acceleration) && vec_same_bits(a.end_jerk, b.end_jerk);
}

// configuration of one optimizer as the model sees it
struct Config {
  Problem prob;
  unsigned flagbits = 0;
  const UserTimeMap* tmap = nullptr;          // nullptr = the optimizer's own default map
  const UserSpatialMap<D>* smap = nullptr;
  double rho = 0; int K = 4;
};

// model decode of a decision vector: durations, waypoints, boundary state
template <class TM, class SM>
void model_decode(const Config& c, const TM& tm, const SM& sm, bool identity_spatial, const Eigen::VectorXd& x, const LayoutModel& L,
                  std::vector<double>& T, MatrixType& P, BoundaryConditions<D>& bc) {
  int N = c.prob.N();
  T.resize(N);
  for (int i = 0; i < N; ++i) T[i] = tm.toTime(x(i));
  P = c.prob.P;
  for (size_t k = 0; k < L.point_index.size(); ++k) {
    int i = L.point_index[k];
    if (identity_spatial) { for (int d = 0; d < D; ++d) P(i, d) = x(L.point_offset[k] + d); }
    else {
      Eigen::VectorXd xi = x.segment(L.point_offset[k], L.point_dof[k]);
      Eigen::VectorXd ph = sm.toPhysical(xi, i);
      for (int d = 0; d < D; ++d) P(i, d) = ph(d);
    }
  }
  bc = c.prob.bc;
  int off = L.deriv_offset;
  for (auto& b : L.dblocks) { for (int d = 0; d < D; ++d) bcf(bc, b.first, b.second)(d) = x(off + d); off += D; }
}

struct SimpleCosts {
  TimeCostP tc; WaypointCostP<D> wc; RunningCostP<D> rc;
};
SimpleCosts gen_costs(Tape& t) {
  SimpleCosts c;
  c.tc = gen_time_cost(t); c.tc.c = 0; c.tc.d = 0;
  c.wc = gen_waypoint_cost<D>(t);
  c.rc = gen_running_cost<D>(t, S, 1.0);
  return c;
}

// checks on one optimizer that is configured as `c`: dimension, initial guess, decode of x0 and of a perturbed x through the built-in workspace
template <class Opt, class TM, class SM>
void check_optimizer_against_model(Tape& t, Ctx& ctx, Opt& opt, const Config& c, const TM& tm, const SM& sm, bool identity_spatial, const SimpleCosts& costs, const std::string& who) {
  const int N = c.prob.N();
  LayoutModel L;
  L.build(N, D, S, flags_from_bits(c.flagbits), [&](int i) { return identity_spatial ? D : sm.getUnconstrainedDim(i); });
  int dim = opt.getDimension();
  VCHECK(ctx, dim == L.total, "dimension", who << ": getDimension()=" << dim << " but the documented layout has " << L.total << " variables (N=" << N << ", flags " << flags_str(c.flagbits) << ")");
  Eigen::VectorXd x0 = opt.generateInitialGuess();
  VCHECK(ctx, x0.size() == L.total, "initial-guess-size", who << ": generateInitialGuess() has " << x0.size() << " entries, layout has " << L.total);
  for (int i = 0; i < N; ++i)
    VCHECK(ctx, same_val(x0(i), tm.toTau(c.prob.T[i])), "initial-guess-time", who << ": initial guess slot " << i << " = " << g17(x0(i)) << " is not toTau(T_" << i << ") = " << g17(tm.toTau(c.prob.T[i])));
  for (size_t k = 0; k < L.point_index.size(); ++k) {
    int i = L.point_index[k];
    Eigen::VectorXd pi = c.prob.P.row(i).transpose();
    Eigen::VectorXd xi = identity_spatial ? pi : sm.toUnconstrained(pi, i);
    for (int q = 0; q < L.point_dof[k]; ++q)
      VCHECK(ctx, same_val(x0(L.point_offset[k] + q), xi(q)), "initial-guess-spatial", who << ": initial guess slot " << L.point_offset[k] + q << " (waypoint " << i << ") = " << g17(x0(L.point_offset[k] + q)) << " is not toUnconstrained(P_" << i << ")[" << q << "] = " << g17(xi(q)) << " (flags " << flags_str(c.flagbits) << ")");
  }
  {
    int off = L.deriv_offset;
    BoundaryConditions<D> rb = c.prob.bc;
    for (auto& b : L.dblocks) {
      for (int d = 0; d < D; ++d)
        VCHECK(ctx, same_val(x0(off + d), bcf(rb, b.first, b.second)(d)), "initial-guess-derivative", who << ": initial guess slot " << off + d << " is not the reference " << (b.first ? "end" : "start") << " derivative of order " << b.second << " (flags " << flags_str(c.flagbits) << ")");
      off += D;
    }
  }
  // evaluate x0 and a perturbed x with the built-in workspace; the exposed spline must be the one defined by the decision vector
  // (half of the runs finish with the initial guess once more, so that an object's last evaluation before its next reconfiguration
  //  used exactly the durations its first evaluation afterwards will use)
  const int npass = t.flag() ? 3 : 2;
  for (int pass = 0; pass < npass; ++pass) {
    Eigen::VectorXd x = x0;
    if (pass == 1) {
      for (int i = 0; i < x.size(); ++i) x(i) += (i < N ? t.sym(8) / 32.0 : (1 + t.range(0, 62)) / 16.0 * (t.flag() ? 1 : -1));
      for (int i = 0; i < N; ++i) { int guard = 0; while (!(tm.toTime(x(i)) >= 0.05) && guard++ < 8) x(i) = 0.5 * (x(i) + x0(i)); if (!(tm.toTime(x(i)) >= 0.05)) x(i) = x0(i); }
      // "every decision vector": time variables that decode far below the shortest duration a reference problem may contain
      if (t.chance(1, 6)) {
        static const double kTiny[] = {4e-4, 1e-4, 2e-5};
        double Tt = kTiny[t.range(0, 2)]; int which = t.range(0, N);
        for (int i = 0; i < N; ++i) if (which == N || which == i) x(i) = tm.toTau(Tt);
        ctx.label("x:tiny-duration");
      }
    }
    Eigen::VectorXd g;
    double cost = opt.evaluate(x, g, costs.tc, costs.wc, costs.rc);
    (void)cost;
    VCHECK(ctx, g.size() == x.size(), "gradient-size", who << ": gradient has " << g.size() << " entries for " << x.size() << " variables");
    const Spline* os = opt.getOptimalSpline();
    VCHECK(ctx, os != nullptr, "optimal-spline-null", who << ": getOptimalSpline() is null after an evaluation with the built-in workspace");
    std::vector<double> T; MatrixType P; BoundaryConditions<D> bc;
    model_decode(c, tm, sm, identity_spatial, x, L, T, P, bc);
    const char* ps = pass == 0 ? "initial guess" : (pass == 1 ? "perturbed vector" : "initial guess again");
    VCHECK(ctx, os->getNumSegments() == N && os->getStartTime() == c.prob.t0, "decode", who << " (" << ps << "): exposed spline has " << os->getNumSegments() << " segments / start " << g17(os->getStartTime()));
    for (int i = 0; i < N; ++i)
      VCHECK(ctx, same_val(os->getTimeSegments()[i], T[i]), "decode-time", who << " (" << ps << "): duration " << i << " of the exposed spline is " << g17(os->getTimeSegments()[i]) << " but toTime(x_" << i << ") = " << g17(T[i]));
    for (int i = 0; i <= N; ++i)
      for (int d = 0; d < D; ++d)
        VCHECK(ctx, same_val(os->getSpacePoints()(i, d), P(i, d)), "decode-waypoint",
               who << " (" << ps << "): waypoint " << i << " coordinate " << d << " of the exposed spline is " << g17(os->getSpacePoints()(i, d)) << " but the decision vector defines " << g17(P(i, d))
                   << ((i == 0 && !(c.flagbits & 1)) || (i == N && !(c.flagbits & 16)) ? " (not flagged: must stay at the reference value)" : "") << " (flags " << flags_str(c.flagbits) << ")");
    VCHECK(ctx, bc_same(os->getBoundaryConditions(), bc), "decode-boundary", who << " (" << ps << "): boundary state of the exposed spline differs from the one the decision vector defines (flags " << flags_str(c.flagbits) << "; unflagged fields must stay at their reference values)");
    if (pass == 0) {
      // the initial guess decodes back to the reference problem
      for (int i = 0; i < N; ++i) VCHECK(ctx, std::fabs(T[i] - c.prob.T[i]) <= 64 * DBL_EPSILON * c.prob.T[i] * 4, "roundtrip-time", who << ": initial guess decodes to duration " << g17(T[i]) << " instead of " << g17(c.prob.T[i]));
      for (int i = 0; i <= N; ++i) for (int d = 0; d < D; ++d)
        VCHECK(ctx, std::fabs(P(i, d) - c.prob.P(i, d)) <= 1e-9 * (1 + std::fabs(c.prob.P(i, d))) * 16, "roundtrip-waypoint", who << ": initial guess decodes waypoint " << i << " to " << g17(P(i, d)) << " instead of " << g17(c.prob.P(i, d)));
    }
    Spline fresh(T, P, c.prob.t0, bc);
    VCHECK(ctx, os->getTrajectory().getBreakpoints() == fresh.getTrajectory().getBreakpoints() && os->getCumulativeTimes() == fresh.getCumulativeTimes() && same_val(os->getEndTime(), fresh.getEndTime()) &&
                    same_val(os->getDuration(), fresh.getDuration()),
           "exposed-spline", who << " (" << ps << "): knot times / end time of the exposed spline (end " << g17(os->getEndTime()) << ") are not start time + decoded durations (end " << g17(fresh.getEndTime()) << ")");
    VCHECK(ctx, mat_same_bits(os->getTrajectory().getCoefficients(), fresh.getTrajectory().getCoefficients()), "exposed-spline", who << " (" << ps << "): coefficients of the exposed spline differ from a spline built from the decoded inputs: " << first_diff(os->getTrajectory().getCoefficients(), fresh.getTrajectory().getCoefficients()));
  }
}

// user spatial map whose per-point unconstrained dimension differs from DIM somewhere, and reference waypoints inside its image
void project_into_image(Problem& p, const UserSpatialMap<D>& sm) {
  for (int i = 0; i < p.N() + 1; ++i) {
    Eigen::VectorXd v = p.P.row(i).transpose();
    Eigen::VectorXd w = sm.project(v, i);
    for (int d = 0; d < D; ++d) p.P(i, d) = w(d);
  }
}

// ===================================================================================== C09 enumerated
constexpr uint64_t c09_total() { return 256ull * 6ull * 2ull; }
void c09_enum(Tape& t, Ctx& ctx) {
  uint64_t idx = t.raw() % c09_total();
  unsigned flagbits = (unsigned)(idx % 256); idx /= 256;
  int N = 1 + (int)(idx % 6); idx /= 6;
  int mode = (int)idx;
  Config c;
  c.prob = gen_problem(t, N);
  c.flagbits = flagbits;
  c.rho = t.flag() ? 0.0 : 0.25; c.K = 1 + t.range(0, 7);
  SimpleCosts costs = gen_costs(t);
  bool by_points = t.flag();
  ctx.label(std::string("map:") + (mode == 0 ? "identity" : "user"));
  ctx.label("N=" + std::to_string(N));
  ctx.nontrivial = flagbits != 0;
  std::string who = std::string(oname()) + " dim=" + std::to_string(D) + " N=" + std::to_string(N) + (mode == 0 ? " identity maps" : " user maps");
  if (ctx.want_desc) ctx.desc << "\"order\": \"" << oname() << "\", \"dim\": " << D << ", \"N\": " << N << ", \"flags\": \"" << flags_str(flagbits) << "\", \"maps\": \"" << (mode == 0 ? "default" : "user") << "\", \"by_points\": " << (by_points ? "true" : "false");
  auto init = [&](auto& opt) {
    if (by_points) {
      std::vector<double> tp(N + 1); tp[0] = c.prob.t0;
      for (int i = 0; i < N; ++i) tp[i + 1] = tp[i] + c.prob.T[i];
      for (int i = 0; i < N; ++i) c.prob.T[i] = tp[i + 1] - tp[i];   // the durations the optimizer sees
      return opt.setInitState(tp, c.prob.P, c.prob.bc);
    }
    return opt.setInitState(c.prob.T, c.prob.P, c.prob.t0, c.prob.bc);
  };
  if (mode == 0) {
    OptD opt;
    bool flags_first = t.flag();
    if (flags_first) opt.setOptimizationFlags(flags_from_bits(flagbits));
    VCHECK(ctx, init(opt), "init-rejected", who << ": a valid problem was rejected: " << opt.getLastError());
    if (!flags_first) opt.setOptimizationFlags(flags_from_bits(flagbits));
    opt.setEnergyWeights(c.rho); opt.setIntegralNumSteps(c.K);
    QuadInvTimeMap tm; IdentitySpatialMap<D> sm;
    struct IdSm { int getUnconstrainedDim(int) const { return D; } Eigen::VectorXd toPhysical(const Eigen::VectorXd& x, int) const { return x; } Eigen::VectorXd toUnconstrained(const Eigen::VectorXd& x, int) const { return x; } } ism;
    (void)sm;
    check_optimizer_against_model(t, ctx, opt, c, tm, ism, true, costs, who);
  } else {
    UserTimeMap tm(t.range(0, 2), (2 + t.range(0, 6)) / 4.0);
    // mask: always include a kind whose unconstrained dimension differs from DIM
    UserSpatialMap<D> sm(1 + t.range(0, 1000), 0x0c | (t.flag() ? 0x02 : 0) | (t.flag() ? 0x01 : 0) | (t.flag() ? 0x10 : 0));
    project_into_image(c.prob, sm);
    OptU opt;
    int order = t.range(0, 2);
    if (order == 0) { opt.setTimeMap(&tm); opt.setSpatialMap(&sm); }
    opt.setOptimizationFlags(flags_from_bits(flagbits));
    VCHECK(ctx, init(opt), "init-rejected", who << ": a valid problem was rejected: " << opt.getLastError());
    if (order == 1) { opt.setSpatialMap(&sm); opt.setTimeMap(&tm); }
    if (order == 2) { (void)opt.getDimension(); opt.setTimeMap(&tm); opt.setSpatialMap(&sm); }  // layout queried before the map is installed
    opt.setEnergyWeights(c.rho); opt.setIntegralNumSteps(c.K);
    c.tmap = &tm; c.smap = &sm;
    bool differs = false;
    for (int i = 0; i <= N; ++i) if (sm.getUnconstrainedDim(i) != D) differs = true;
    if (differs) ctx.label("user-map:dof!=DIM"); else ctx.label("user-map:dof==DIM");
    check_optimizer_against_model(t, ctx, opt, c, tm, sm, false, costs, who);
  }
}

// ===================================================================================== C09 histories
void c09_hist(Tape& t, Ctx& ctx) {
  OptU opt;
  UserTimeMap tms[2] = {UserTimeMap(0, 1.5), UserTimeMap(1, 2.0)};
  UserSpatialMap<D> sms[2] = {UserSpatialMap<D>(7, 0x0e), UserSpatialMap<D>(11, 0x1d)};
  UserTimeMap deftm; UserSpatialMap<D> defsm;  // equal to the optimizer's default-constructed maps
  Config c;
  c.prob = gen_problem(t, t.rangez(1, 6, 2));
  Problem raw = c.prob;  // waypoints before projection
  bool have = false;
  SimpleCosts costs = gen_costs(t);
  int nops = t.rangez(3, 20, 8);
  bool reconfigured_since_query = false, nt = false;
  if (ctx.want_desc) ctx.desc << "\"order\": \"" << oname() << "\", \"dim\": " << D << ", \"ops\": [";
  for (int op = 0; op < nops && !ctx.failed; ++op) {
    int kind = have ? t.pickw({2, 3, 2, 2, 5}) : 0;
    const char* on = "";
    switch (kind) {
      case 0: {  // new initial state (possibly a different N); a third of the re-initialisations change ONE ingredient of the current one
        if (have && t.chance(1, 3)) {
          switch (t.range(0, 3)) {
            case 0: raw.t0 = t.sym(80) / 8.0; break;                                       // start time only
            case 1: bcf(raw.bc, t.flag(), t.range(1, 3))(t.range(0, D - 1)) += 0.5; break;  // one boundary component
            case 2: raw.P(t.range(0, raw.N()), t.range(0, D - 1)) += 0.25; break;          // one waypoint coordinate
            default: break;                                                                 // identical resubmission
          }
          on = "setInitState(one ingredient changed)";
        } else {
          raw = gen_problem(t, t.rangez(1, 6, 2));
          on = "setInitState";
        }
        break;
      }
      case 1: c.flagbits = (unsigned)t.range(0, 255); opt.setOptimizationFlags(flags_from_bits(c.flagbits)); on = "setOptimizationFlags"; reconfigured_since_query = true; break;
      case 2: { int w = t.range(0, 2); c.smap = w == 2 ? nullptr : &sms[w]; opt.setSpatialMap(c.smap); on = "setSpatialMap"; reconfigured_since_query = true; break; }
      case 3: { int w = t.range(0, 2); c.tmap = w == 2 ? nullptr : &tms[w]; opt.setTimeMap(c.tmap); on = "setTimeMap"; reconfigured_since_query = true; break; }
      default: on = "query"; break;
    }
    if (kind == 0 || kind == 2) {
      // (re)initialise with waypoints inside the image of the active spatial map, so that the round trip is meaningful
      c.prob = raw;
      const UserSpatialMap<D>& sm = c.smap ? *c.smap : defsm;
      project_into_image(c.prob, sm);
      bool ok = opt.setInitState(c.prob.T, c.prob.P, c.prob.t0, c.prob.bc);
      VCHECK(ctx, ok, "init-rejected", oname() << ": a valid problem was rejected in a reconfiguration history: " << opt.getLastError());
      have = true; reconfigured_since_query = true;
    }
    if (ctx.want_desc) ctx.desc << (op ? "," : "") << "\"" << on << "\"";
    ctx.label(std::string("op:") + on);
    if (kind == 4) {
      const UserTimeMap& tm = c.tmap ? *c.tmap : deftm;
      const UserSpatialMap<D>& sm = c.smap ? *c.smap : defsm;
      std::string who = std::string(oname()) + " dim=" + std::to_string(D) + " N=" + std::to_string(c.prob.N()) + " after " + std::to_string(op) + " reconfiguration ops";
      check_optimizer_against_model(t, ctx, opt, c, tm, sm, false, costs, who);
      if (reconfigured_since_query) nt = true;
      reconfigured_since_query = false;
    }
  }
  if (ctx.want_desc) ctx.desc << "]";
  ctx.nontrivial = nt;
}

// ===================================================================================== C15
struct OptModel {
  bool live = false;
  bool inited = false;
  Config c;
  bool has_ws = false;   // built-in workspace exists
};

void c15(Tape& t, Ctx& ctx) {
  const int POOL = 4;
  std::vector<std::unique_ptr<OptU>> pool(POOL);
  OptModel mod[POOL];
  // user maps referenced (never owned) by the optimizers; they outlive every optimizer of the case
  std::unique_ptr<UserTimeMap> utm[2] = {std::unique_ptr<UserTimeMap>(new UserTimeMap(0, 1.25)), std::unique_ptr<UserTimeMap>(new UserTimeMap(1, 1.75))};
  std::unique_ptr<UserSpatialMap<D>> usm[2] = {std::unique_ptr<UserSpatialMap<D>>(new UserSpatialMap<D>(21, 0x0f)), std::unique_ptr<UserSpatialMap<D>>(new UserSpatialMap<D>(33, 0x13))};
  UserTimeMap deftm; UserSpatialMap<D> defsm;
  SimpleCosts costs = gen_costs(t);
  long dead0 = LiveRegistry::dead_calls();
  int nops = t.rangez(3, 24, 10);
  bool nt = false;
  std::vector<bool> source_gone_or_mutated(POOL, false);
  std::vector<int> copied_from(POOL, -1);
  if (ctx.want_desc) ctx.desc << "\"order\": \"" << oname() << "\", \"dim\": " << D << ", \"ops\": [";
  auto destroy_all = [&]() { for (auto& p : pool) p.reset(); };

  auto configure_fresh = [&](OptU& o, const Config& c) {
    if (c.tmap) o.setTimeMap(c.tmap);
    if (c.smap) o.setSpatialMap(c.smap);
    o.setOptimizationFlags(flags_from_bits(c.flagbits));
    o.setEnergyWeights(c.rho); o.setIntegralNumSteps(c.K);
    return o.setInitState(c.prob.T, c.prob.P, c.prob.t0, c.prob.bc);
  };
  auto mark_mutated = [&](int i) { for (int j = 0; j < POOL; ++j) if (copied_from[j] == i) source_gone_or_mutated[j] = true; copied_from[i] = -1; source_gone_or_mutated[i] = false; };

  // probe optimizer i: must evaluate exactly like a freshly built optimizer with the model's configuration, and must use its own default maps
  auto probe = [&](int i, int op) -> bool {
    OptU& o = *pool[i];
    OptModel& m = mod[i];
    if (!m.inited) return true;
    OptU fresh;
    if (!configure_fresh(fresh, m.c)) { VFAILNR(ctx, "harness", "model configuration rejected"); return false; }
    int dim = o.getDimension(), dimf = fresh.getDimension();
    if (dim != dimf) { VFAILNR(ctx, "copy-dimension", oname() << ": optimizer " << i << " reports dimension " << dim << ", an equivalent freshly configured optimizer " << dimf << " (after op " << op << ")"); return false; }
    Eigen::VectorXd x = fresh.generateInitialGuess();
    for (int k = 0; k < x.size(); ++k) x(k) += ((k * 7 + op * 3) % 5 - 2) / 16.0;
    Eigen::VectorXd g1, g2;
    OptU::Workspace wsf;
    double c2 = fresh.evaluate(x, g2, costs.tc, costs.wc, costs.rc, &wsf);
    // record which map objects the evaluation of o touches
    LiveRegistry::used().clear(); LiveRegistry::recording() = true;
    double c1 = o.evaluate(x, g1, costs.tc, costs.wc, costs.rc);
    LiveRegistry::recording() = false;
    m.has_ws = true;
    if (!(same_val(c1, c2) && vec_same_bits(g1, g2))) {
      VFAILNR(ctx, source_gone_or_mutated[i] ? "copy-not-independent" : "copy-evaluates-differently",
              oname() << " dim=" << D << ": optimizer " << i << (copied_from[i] >= 0 || source_gone_or_mutated[i] ? " (a copy)" : "") << " evaluates to cost " << g17(c1) << " but an equivalent freshly configured optimizer gives " << g17(c2)
                      << " (after op " << op << (source_gone_or_mutated[i] ? "; its source was modified or destroyed after the copy" : "") << ")");
      return false;
    }
    const char* lo = reinterpret_cast<const char*>(&o); const char* hi = lo + sizeof(OptU);
    for (const void* p : LiveRegistry::used()) {
      const char* q = reinterpret_cast<const char*>(p);
      bool inside = q >= lo && q < hi;
      bool is_user = (p == m.c.tmap && p != nullptr) || (p == m.c.smap && p != nullptr);
      if (!(inside || is_user)) {
        VFAILNR(ctx, "shares-default-map", oname() << " dim=" << D << ": evaluating optimizer " << i << " called a map object that is neither inside that optimizer nor the user-supplied map it references (after op " << op << ")");
        return false;
      }
      if (inside && ((q == reinterpret_cast<const char*>(m.c.tmap)) || (q == reinterpret_cast<const char*>(m.c.smap)))) {}
    }
    // user-supplied maps must actually be the ones used
    if (m.c.tmap && std::find(LiveRegistry::used().begin(), LiveRegistry::used().end(), (const void*)m.c.tmap) == LiveRegistry::used().end()) {
      VFAILNR(ctx, "user-map-dropped", oname() << ": optimizer " << i << " does not use the user-supplied time map it should reference (after op " << op << ")"); return false; }
    const bool has_spatial_vars = m.c.prob.N() >= 2 || (m.c.flagbits & 1u) || (m.c.flagbits & 16u);
    if (m.c.smap && has_spatial_vars && std::find(LiveRegistry::used().begin(), LiveRegistry::used().end(), (const void*)m.c.smap) == LiveRegistry::used().end()) {
      VFAILNR(ctx, "user-map-dropped", oname() << ": optimizer " << i << " does not use the user-supplied spatial map it should reference (after op " << op << ")"); return false; }
    if (LiveRegistry::dead_calls() != dead0) { VFAILNR(ctx, "dangling-map", oname() << ": a destroyed map object was called while evaluating optimizer " << i << " (after op " << op << ")"); return false; }
    if (source_gone_or_mutated[i]) nt = true;
    // built-in workspaces are not shared: evaluating o must not change any other optimizer's exposed spline
    for (int j = 0; j < POOL; ++j) {
      if (j == i || !pool[j] || !mod[j].has_ws) continue;
      if (pool[j]->getOptimalSpline() == o.getOptimalSpline()) { VFAILNR(ctx, "shares-workspace", oname() << ": optimizers " << i << " and " << j << " expose the same built-in spline object"); return false; }
    }
    return true;
  };

  for (int op = 0; op < nops && !ctx.failed; ++op) {
    int kind = t.pickw({3, 2, 2, 3, 4, 4, 2, 2, 2});
    int i = t.range(0, POOL - 1);
    if (kind >= 1 && kind <= 7 && !pool[i]) for (int k = 1; k < POOL; ++k) if (pool[(i + k) % POOL]) { i = (i + k) % POOL; break; }
    const char* on = "";
    switch (kind) {
      case 0: {  // construct + initialise
        on = "construct+init";
        if (pool[i]) { mark_mutated(i); pool[i].reset(); }
        pool[i].reset(new OptU());
        mod[i] = OptModel(); mod[i].live = true;
        mod[i].c.prob = gen_problem(t, t.rangez(1, 5, 2));
        mod[i].c.flagbits = (unsigned)t.range(0, 255); mod[i].c.rho = t.flag() ? 0.125 : 0.0; mod[i].c.K = 1 + t.range(0, 5);
        int wt = t.range(0, 2), wsm = t.range(0, 2);
        mod[i].c.tmap = wt == 2 ? nullptr : utm[wt].get(); mod[i].c.smap = wsm == 2 ? nullptr : usm[wsm].get();
        const UserSpatialMap<D>& sm = mod[i].c.smap ? *mod[i].c.smap : defsm;
        project_into_image(mod[i].c.prob, sm);
        mod[i].inited = configure_fresh(*pool[i], mod[i].c);
        VCHECK(ctx, mod[i].inited, "init-rejected", "valid problem rejected");
        break;
      }
      case 1: {  // change flags / energy weight of an existing optimizer (mutation of a potential source)
        on = "mutate";
        if (!pool[i] || !mod[i].inited) break;
        mark_mutated(i);
        mod[i].c.flagbits = (unsigned)t.range(0, 255); mod[i].c.rho = t.range(0, 4) / 8.0;
        pool[i]->setOptimizationFlags(flags_from_bits(mod[i].c.flagbits)); pool[i]->setEnergyWeights(mod[i].c.rho);
        break;
      }
      case 2: {  // set / reset maps
        on = "set-maps";
        if (!pool[i] || !mod[i].inited) break;
        mark_mutated(i);
        int wt = t.range(0, 2), wsm = t.range(0, 2);
        mod[i].c.tmap = wt == 2 ? nullptr : utm[wt].get(); mod[i].c.smap = wsm == 2 ? nullptr : usm[wsm].get();
        pool[i]->setTimeMap(mod[i].c.tmap); pool[i]->setSpatialMap(mod[i].c.smap);
        break;
      }
      case 3: {  // evaluate (creates the built-in workspace)
        on = "evaluate";
        if (!pool[i]) break;
        probe(i, op);
        break;
      }
      case 4: {  // copy-construct j from i (through an lvalue, or through a temporary)
        if (!pool[i]) break;
        int j = t.range(0, POOL - 1); if (j == i) j = (i + 1) % POOL;
        bool via_temp = t.flag();
        on = via_temp ? "copy-construct(via temporary)" : "copy-construct";
        if (pool[j]) { mark_mutated(j); pool[j].reset(); }
        if (via_temp) { OptU tmp(*pool[i]); pool[j].reset(new OptU(std::move(tmp))); }  // rvalue source: must behave like a copy (the temporary dies right away)
        else pool[j].reset(new OptU(*pool[i]));
        mod[j] = mod[i]; copied_from[j] = i; source_gone_or_mutated[j] = false;
        VCHECK(ctx, (pool[j]->getOptimalSpline() == nullptr) == (pool[i]->getOptimalSpline() == nullptr), "copy-workspace-state", oname() << ": a copy-constructed optimizer exposes a built-in spline although its source has none (or vice versa)");
        break;
      }
      case 5: {  // copy-assign j = i (incl. self-assignment, assignment over an optimizer that owns a workspace, assignment from a temporary)
        if (!pool[i]) break;
        int j = t.range(0, POOL - 1);
        if (!pool[j]) { pool[j].reset(new OptU()); mod[j] = OptModel(); mod[j].live = true; }
        int how = t.range(0, 2);
        if (j == i) { on = "self-assign"; OptU& self = *pool[i]; self = *pool[i]; break; }
        mark_mutated(j);
        if (how == 0) { on = "copy-assign"; *pool[j] = *pool[i]; }
        else if (how == 1) { on = "copy-assign(from temporary)"; *pool[j] = OptU(*pool[i]); }
        else { on = "copy-assign(chain)"; OptU tmp; tmp = *pool[i]; *pool[j] = tmp; }
        mod[j] = mod[i]; copied_from[j] = i; source_gone_or_mutated[j] = false;
        // a copy is a copy of the source's state: it exposes a built-in spline exactly when the source does, and then the same one (by value)
        VCHECK(ctx, (pool[j]->getOptimalSpline() == nullptr) == (pool[i]->getOptimalSpline() == nullptr), "copy-workspace-state",
               oname() << ": after assignment (" << on << ") the target exposes " << (pool[j]->getOptimalSpline() ? "a" : "no") << " built-in spline but its source exposes " << (pool[i]->getOptimalSpline() ? "one" : "none") << " (a stale workspace of the target's previous problem?)");
        if (pool[j]->getOptimalSpline())
          VCHECK(ctx, pool[j]->getOptimalSpline() != pool[i]->getOptimalSpline() && mat_same_bits(pool[j]->getOptimalSpline()->getTrajectory().getCoefficients(), pool[i]->getOptimalSpline()->getTrajectory().getCoefficients()),
                 "copy-workspace-state", oname() << ": after assignment the target's exposed spline is not a copy of the source's");
        break;
      }
      case 6: {  // destroy
        on = "destroy";
        if (!pool[i]) break;
        mark_mutated(i);
        pool[i].reset(); mod[i] = OptModel();
        break;
      }
      case 7: {  // re-initialise a source with a new problem
        on = "re-init";
        if (!pool[i] || !mod[i].inited) break;
        mark_mutated(i);
        mod[i].c.prob = gen_problem(t, t.rangez(1, 5, 2));
        const UserSpatialMap<D>& sm = mod[i].c.smap ? *mod[i].c.smap : defsm;
        project_into_image(mod[i].c.prob, sm);
        bool ok = pool[i]->setInitState(mod[i].c.prob.T, mod[i].c.prob.P, mod[i].c.prob.t0, mod[i].c.prob.bc);
        VCHECK(ctx, ok, "init-rejected", "valid problem rejected");
        break;
      }
      default: {  // spline / trajectory copies are independent too
        on = "spline-copy";
        // sizes on both sides of the 32-segment switch of the segment lookup, as well as the small ones
        static const int kNs[] = {1, 2, 3, 4, 5, 31, 32, 33, 40};
        int Ns = kNs[t.rangez(0, 8, 2)];
        Problem p = gen_problem(t, Ns);
        std::unique_ptr<Spline> a(new Spline(p.T, p.P, p.t0, p.bc));
        if (t.chance(3, 4)) for (int k = 0; k <= t.range(0, 3); ++k) (void)a->getTrajectory().evaluate(p.t0 + 0.125 * k, k);
        Spline b(*a), c2; c2 = *a;
        auto tc = a->getTrajectoryCopy();
        Spline b2(b);                     // copy of a copy
        MatrixType C0 = a->getTrajectory().getCoefficients();
        double e0 = a->getEnergy();
        // the source is updated (same size with other knots / another size), updated through a copy's data, or destroyed
        int fate = t.range(0, 3);
        Problem q = gen_problem(t, fate == 0 ? Ns : kNs[t.rangez(0, 8, 2)]);
        if (fate <= 1) { if (t.flag()) a->update(q.T, q.P, q.t0, q.bc); else { std::vector<double> tp(q.T.size() + 1); tp[0] = q.t0; for (size_t k = 0; k < q.T.size(); ++k) tp[k + 1] = tp[k] + q.T[k]; a->update(tp, q.P, q.bc); } }
        else if (fate == 2) { a.reset(); if (t.flag()) { std::unique_ptr<Spline> filler(new Spline(q.T, q.P, q.t0, q.bc)); (void)filler->getEnergy(); } }
        else { Spline tmp(q.T, q.P, q.t0, q.bc); *a = tmp; }
        Spline f(p.T, p.P, p.t0, p.bc);
        const auto& ft = f.getTrajectory();
        bool ok = mat_same_bits(b.getTrajectory().getCoefficients(), C0) && mat_same_bits(c2.getTrajectory().getCoefficients(), C0) && mat_same_bits(b2.getTrajectory().getCoefficients(), C0) &&
                  mat_same_bits(tc.getCoefficients(), C0) && same_val(b.getEnergy(), e0) && same_val(c2.getEnergy(), e0) && same_val(b2.getEnergy(), e0) &&
                  b.getTrajectory().getBreakpoints() == ft.getBreakpoints() && c2.getTrajectory().getBreakpoints() == ft.getBreakpoints() && tc.getBreakpoints() == ft.getBreakpoints();
        std::string where;
        // evaluation on every piece (interior point and left knot) at the orders 0..3: the copies must select the pieces by their OWN knots
        const auto& bk = ft.getBreakpoints();
        for (int sgi = 0; sgi < Ns && ok; ++sgi) {
          for (double tq : {bk[sgi], bk[sgi] + (bk[sgi + 1] - bk[sgi]) * (1 + (sgi * 7) % 15) / 16.0}) {
            int k = sgi % 4;
            auto vf = ft.evaluate(tq, k);
            if (!(vec_same_bits(b.getTrajectory().evaluate(tq, k), vf) && vec_same_bits(c2.getTrajectory().evaluate(tq, k), vf) && vec_same_bits(tc.evaluate(tq, k), vf) && vec_same_bits(b2.getTrajectory().evaluate(tq, k), vf))) {
              ok = false; where = " (evaluate at t=" + g17(tq) + ", order " + std::to_string(k) + ", piece " + std::to_string(sgi) + " of " + std::to_string(Ns) + ")";
            }
          }
        }
        auto gA = b.getEnergyGrad(); auto gF = f.getEnergyGrad();
        ok = ok && vec_same_bits(gA.times, gF.times) && mat_same_bits(gA.inner_points, gF.inner_points);
        VCHECK(ctx, ok, "spline-copy-not-independent", oname() << " dim=" << D << " N=" << Ns << ": a copy of a spline changed (or differs from a fresh spline) after its source was "
                                                              << (fate <= 1 ? "updated" : (fate == 2 ? "destroyed" : "assigned over")) << where);
        // and the other way round: updating a copy leaves the (still living) source and the other copies alone
        if (a) {
          Spline fa(q.T, q.P, q.t0, q.bc);
          Spline cpy(*a);
          Problem r = gen_problem(t, kNs[t.rangez(0, 8, 2)]);
          cpy.update(r.T, r.P, r.t0, r.bc);
          double tq = q.t0 + 0.375 * q.T[0];
          VCHECK(ctx, mat_same_bits(a->getTrajectory().getCoefficients(), fa.getTrajectory().getCoefficients()) && a->getTrajectory().getBreakpoints() == fa.getTrajectory().getBreakpoints() &&
                          vec_same_bits(a->getTrajectory().evaluate(tq, 1), fa.getTrajectory().evaluate(tq, 1)) && same_val(a->getEnergy(), fa.getEnergy()),
                 "spline-copy-not-independent", oname() << " dim=" << D << ": a spline changed after a copy of it was updated");
        }
        if (Ns >= 32) ctx.label("spline-copy:>=32-segments");
        nt = true;
        break;
      }
    }
    ctx.label(std::string("op:") + on);
    if (ctx.want_desc) ctx.desc << (op ? "," : "") << "\"" << on << "@" << i << "\"";
    // after every op: probe live, initialised optimizers - each with probability 3/4, so that optimizers that were never evaluated
    // (no built-in workspace yet) also occur as sources and targets of later copies (seeded C15-4)
    uint32_t pm = t.raw();
    for (int k = 0; k < POOL && !ctx.failed; ++k) if (pool[k] && mod[k].inited && ((pm >> (2 * k)) & 3u) != 0) probe(k, op);
  }
  if (ctx.want_desc) ctx.desc << "]";
  destroy_all();
  ctx.nontrivial = nt;
}

Registrar r09({"C09", std::string("layout ") + SplineOf<VDIM, (VORDER + 1) / 2>::name() + " dim=" + std::to_string(VDIM), 400, c09_total(), c09_enum, nullptr});
Registrar r09h({"C09h", std::string("reconfiguration histories ") + SplineOf<VDIM, (VORDER + 1) / 2>::name() + " dim=" + std::to_string(VDIM), 1200, 0, c09_hist, nullptr});
Registrar r15({"C15", std::string("optimizer copies ") + SplineOf<VDIM, (VORDER + 1) / 2>::name() + " dim=" + std::to_string(VDIM), 1500, 0, c15, nullptr});

}  // namespace lay
