// opt_cost.cpp - one binary per (spline order, dimension): -DVORDER=3|5|7 -DVDIM=1..4
//   C07  optimizer gradient = gradient of the cost it returns   (enumerated: 256 flag sets x 3 map pairs; data, N, K, rho, costs generated)
//   C08  cost = time + waypoint + trapezoid integral + weighted energy; every sample handed to the running cost is correct
//   C19  checkGradients gives a trustworthy verdict and restores state
#include "opt_common.hpp"

#ifndef VDIM
#define VDIM 2
#endif
#ifndef VORDER
#define VORDER 5
#endif

using namespace vf;
using namespace SplineTrajectory;

namespace oc {

constexpr int D = VDIM;
constexpr int S = (VORDER + 1) / 2;
constexpr int NC = 2 * S;
using Spline = typename SplineOf<D, S>::type;
using MatrixType = typename Spline::MatrixType;
using Vec = Eigen::Matrix<double, D, 1>;
using OptD = SplineOptimizer<D, Spline>;
using OptI = SplineOptimizer<D, Spline, IdentityTimeMap>;
using OptU = SplineOptimizer<D, Spline, UserTimeMap, UserSpatialMap<D>>;
const char* oname() { return SplineOf<D, S>::name(); }

struct Problem {
  std::vector<double> T; MatrixType P; BoundaryConditions<D> bc; double t0 = 0;
  int N() const { return (int)T.size(); }
};
Problem gen_problem(Tape& t, int N, double* tscale) {
  Problem p;
  // durations: overall scale sigma in [0.25, 4], ratio within the well-scaled domain (capped at 8 to keep the cost well conditioned)
  double sigma = std::exp2(t.sym(16) / 8.0);
  double R = std::min(wellscaled_ratio(S), 8.0);
  p.T.resize(N);
  for (auto& x : p.T) x = sigma * std::pow(R, (t.range(0, 32) - 16) / 32.0);
  p.P.resize(N + 1, D);
  for (int i = 0; i <= N; ++i) for (int d = 0; d < D; ++d) p.P(i, d) = t.sym(320) / 32.0;
  auto fill = [&](Vec& v, int order) { for (int d = 0; d < D; ++d) v(d) = t.sym(48) / 16.0 / std::pow(sigma, order); };
  fill(p.bc.start_velocity, 1); fill(p.bc.start_acceleration, 2); fill(p.bc.start_jerk, 3);
  fill(p.bc.end_velocity, 1); fill(p.bc.end_acceleration, 2); fill(p.bc.end_jerk, 3);
  p.t0 = t.pickw({2, 3, 1}) == 0 ? 0.0 : (t.flag() ? t.sym(80) / 8.0 : 100.0 * t.sym(10));
  if (tscale) *tscale = sigma;
  return p;
}

Vec& bcf(BoundaryConditions<D>& b, bool end, int m) {
  if (!end) return m == 1 ? b.start_velocity : (m == 2 ? b.start_acceleration : b.start_jerk);
  return m == 1 ? b.end_velocity : (m == 2 ? b.end_acceleration : b.end_jerk);
}

struct Costs { TimeCostP tc; WaypointCostP<D> wc; RunningCostP<D> rc; };
Costs gen_costs(Tape& t, double tscale) {
  Costs c;
  c.tc = gen_time_cost(t);
  c.wc = gen_waypoint_cost<D>(t);
  c.rc = gen_running_cost<D>(t, S, tscale);
  return c;
}

// all cost terms are linear in their weights: scale the whole cost (and with it every gradient) by f
void scale_costs(Costs& c, double f) {
  c.tc.a0 *= f; c.tc.a1 *= f; c.tc.b *= f; c.tc.c *= f; c.tc.d *= f;
  c.wc.w0 *= f; c.wc.w1 *= f; c.wc.kappa *= f; c.wc.mu *= f; c.wc.lin *= f;
  c.rc.wp *= f; c.rc.wv *= f; c.rc.wa *= f; c.rc.wj *= f; c.rc.ws *= f; c.rc.xpa *= f; c.rc.xvj *= f;
  c.rc.obs *= f; c.rc.sn *= f; c.rc.lg *= f; c.rc.lin_t *= f; c.rc.cst *= f;
}

template <class Opt>
void configure(Opt& opt, const Problem& p, unsigned flagbits, double rho, int K) {
  opt.setOptimizationFlags(flags_from_bits(flagbits));
  opt.setEnergyWeights(rho);
  opt.setIntegralNumSteps(K);
}

// decision vector: initial guess perturbed in every slot, durations kept >= 0.05 s

// initialise through either overload: a third of the cases hand over knot times (the start time is then the first of them and
// the reference durations are the differences the library forms)
template <class Opt>
bool init_state(Tape& t, Ctx& ctx, Opt& opt, Problem& p) {
  if (t.chance(1, 3)) {
    std::vector<double> tp(p.T.size() + 1);
    tp[0] = p.t0;
    for (size_t i = 0; i < p.T.size(); ++i) tp[i + 1] = tp[i] + p.T[i];
    for (size_t i = 0; i < p.T.size(); ++i) p.T[i] = tp[i + 1] - tp[i];
    ctx.label("init:time-points");
    return opt.setInitState(tp, p.P, p.bc);
  }
  ctx.label("init:durations");
  return opt.setInitState(p.T, p.P, p.t0, p.bc);
}

template <class Opt, class TM>
Eigen::VectorXd gen_x(Tape& t, const Opt& opt, const TM& tm, int N) {
  Eigen::VectorXd x0 = opt.generateInitialGuess();
  Eigen::VectorXd x = x0;
  int xm = t.pickw({8, 1, 1});   // perturb every slot / exactly the initial guess / only the time slots (waypoints bit-equal to the references)
  if (xm == 1) return x;
  for (int i = 0; i < x.size(); ++i) x(i) += (i < N ? t.sym(8) / 32.0 : (xm == 2 ? 0.0 : t.sym(32) / 32.0));
  for (int i = 0; i < N; ++i) { int guard = 0; while (!(tm.toTime(x(i)) >= 0.05) && guard++ < 8) x(i) = 0.5 * (x(i) + x0(i)); if (!(tm.toTime(x(i)) >= 0.05)) x(i) = x0(i); }
  return x;
}

// ===================================================================================== C07
template <class Opt, class TM>
void c07_run(Tape& t, Ctx& ctx, Opt& opt, const TM& tm, const Problem& p, unsigned flagbits, const char* mapname) {
  const int N = p.N();
  double rho = t.flag() ? 0.0 : std::exp2(t.sym(4));
  static const int Ks[] = {1, 2, 3, 4, 5, 8, 16, 64};
  int K = Ks[t.range(0, 7)];
  double sig = std::exp((std::log(*std::min_element(p.T.begin(), p.T.end())) + std::log(*std::max_element(p.T.begin(), p.T.end()))) / 2);
  Costs costs = gen_costs(t, sig);
  costs.wc.ref = p.P.template cast<double>();   // reference waypoints of the linear-deviation term
  // the energy of a well-scaled problem scales like sigma^-(2s-1): weight it so that it is commensurate with the other terms
  double rho_eff = rho * std::pow(sig, 2 * S - 1) / 64.0;
  configure(opt, p, flagbits, rho_eff, K);
  Eigen::VectorXd x = gen_x(t, opt, tm, N);
  const int n = (int)x.size();
  ctx.label(std::string("maps:") + mapname);
  ctx.label(rho == 0 ? "rho=0" : "rho>0");
  ctx.label("K=" + std::to_string(K));
  ctx.label("N=" + std::to_string(N));
  for (int b = 0; b < 8; ++b) if (flagbits & (1u << b)) ctx.label("flag-bit-" + std::to_string(b));
  bool gt_used = costs.rc.obs != 0 || costs.rc.sn != 0 || costs.rc.lin_t != 0;
  ctx.nontrivial = (flagbits & 0xEE) != 0 && K >= 2 && gt_used;
  std::string who = std::string(oname()) + " dim=" + std::to_string(D) + " N=" + std::to_string(N) + " K=" + std::to_string(K) + " maps=" + mapname + " flags=" + flags_str(flagbits) + " rho=" + g6(rho_eff);
  if (ctx.want_desc) ctx.desc << "\"order\": \"" << oname() << "\", \"dim\": " << D << ", \"N\": " << N << ", \"K\": " << K << ", \"maps\": \"" << mapname << "\", \"flags\": \"" << flags_str(flagbits) << "\", \"rho\": " << g6(rho_eff) << ", \"t0\": " << g17(p.t0) << ", \"x_dim\": " << n;
  typename Opt::Workspace ws;
  Eigen::VectorXd g;
  // a quarter of the cases: the same optimizer and workspace have just evaluated the SAME vector for a problem that differs only in
  // data that are not decision variables (fixed end points, fixed boundary derivatives); nothing of that may survive
  if (t.chance(1, 4)) {
    Problem p2 = p;
    for (int d = 0; d < D; ++d) { p2.P(0, d) += 0.5; p2.P(N, d) -= 0.25; }
    for (int e = 0; e < 2; ++e) for (int m = 1; m <= 3; ++m) for (int d = 0; d < D; ++d) bcf(p2.bc, e == 1, m)(d) += 0.25;
    if (opt.setInitState(p2.T, p2.P, p2.t0, p2.bc)) {
      Eigen::VectorXd gtmp;
      (void)opt.evaluate(x, gtmp, costs.tc, costs.wc, costs.rc, &ws);
      ctx.label("history:same-vector-evaluated-for-another-problem");
    }
    VCHECK(ctx, opt.setInitState(p.T, p.P, p.t0, p.bc), "init-rejected", "valid problem rejected on re-initialisation");
  }
  double c0 = opt.evaluate(x, g, costs.tc, costs.wc, costs.rc, &ws);
  VCHECK(ctx, g.size() == n && std::isfinite(c0), "evaluate", who << ": cost " << g17(c0) << " / gradient size " << g.size());
  // magnitude of the cost's pieces (for the rounding-noise term of the finite-difference oracle)
  double Cabs = 0;
  {
    Eigen::VectorXd gg;
    Costs z = costs;
    Costs only_t; only_t.tc = costs.tc;
    Costs only_w; only_w.wc = costs.wc;
    Costs only_r; only_r.rc = costs.rc;
    opt.setEnergyWeights(0.0);
    Cabs += std::fabs(opt.evaluate(x, gg, only_t.tc, only_t.wc, only_t.rc, &ws));
    Cabs += std::fabs(opt.evaluate(x, gg, only_w.tc, only_w.wc, only_w.rc, &ws));
    Cabs += std::fabs(opt.evaluate(x, gg, only_r.tc, only_r.wc, only_r.rc, &ws));
    Cabs += rho_eff * std::fabs(ws.spline.getEnergy());
    opt.setEnergyWeights(rho_eff);
    (void)z;
  }
  const ld noise_rel = S == 2 ? 1e-14L : (S == 3 ? 1e-13L : 3e-9L);  // rounding level of the returned cost relative to the sum of its pieces (septic: 3e-10 measured, s8 T22)
  ld ginf = 0; for (int i = 0; i < n; ++i) ginf = std::max(ginf, fabsl((ld)g(i)));
  ld scale = ginf + 1e-3L * fabsl((ld)c0);
  auto cost_at = [&](const Eigen::VectorXd& y) { Eigen::VectorXd gg; return (ld)opt.evaluate(y, gg, costs.tc, costs.wc, costs.rc, &ws); };
  auto fd_dir = [&](const Eigen::VectorXd& dir, ld analytic, const std::string& name) -> bool {
    double h = pow2i(-12);
    auto Dh = [&](double hh) { Eigen::VectorXd yp = x + hh * dir, ym = x - hh * dir; return (cost_at(yp) - cost_at(ym)) / (2 * (ld)hh); };
    // three levels per rung: the Richardson value is trusted only where the differences shrink like h^2 (successive differences fall by
    // at least 2.5); otherwise the rung is not yet in the asymptotic regime (steep costs: the h^4 term can cancel the h^2 term at
    // one step size and make |D(h/2) - D(h)| small by accident) and the ladder moves down by a factor 4, at most three times
    ld d1 = 0, d2 = 0, d3 = 0, e = 0;
    for (int rung = 0; rung < 4; ++rung) {
      d1 = Dh(h); d2 = Dh(h / 2); d3 = Dh(h / 4);
      ld e1 = fabsl(d2 - d1), e2 = fabsl(d3 - d2);
      e = e2;
      ld noise = (8 * (ld)DBL_EPSILON + noise_rel) * (ld)Cabs / (h / 4);
      if (e2 * 2.5L <= e1 || e1 <= noise) break;     // converging as it should, or already at rounding level
      e = std::max(e1, e2);
      if (rung < 3) h /= 4;
    }
    ld r = (4 * d3 - d2) / 3;
    h /= 2;   // the noise term below refers to the finest step used, h/4 of this rung
    if (ctx.verbose && std::getenv("VERIF_DEBUG_FD")) {   // replay-only diagnostics: the difference quotients at a ladder of steps
      std::fprintf(stderr, "fd %s analytic %.12Lg:", name.c_str(), analytic);
      for (int k = 6; k <= 20; k += 2) std::fprintf(stderr, " D(2^-%d)=%.12Lg", k, Dh(pow2i(-k)));
      std::fprintf(stderr, "\n");
    }
    ld eta = (8 * (ld)DBL_EPSILON + noise_rel) * (ld)Cabs / (h / 2);
    ld slack = 2 * e + eta;
    if (slack > 1e-6L * scale) ctx.label(2 * e > eta ? "fd:loose(truncation)" : "fd:loose(rounding)"); else ctx.label("fd:tight");
    ld err = fabsl(analytic - r);
    if (slack <= 1e-6L * scale && scale > 0) ctx.maxi(std::string("fd_err_over_scale_") + oname(), (double)(err / scale));
    if (!(err <= 1e-6L * scale + slack)) {
      VFAILNR(ctx, "gradient-vs-fd", who << ": analytic derivative along " << name << " is " << lg(analytic) << " but central differences of the returned cost give " << lg(r) << " (tolerance " << lg(1e-6L * scale + slack) << ", |grad|inf " << lg(ginf) << ", cost " << g17(c0) << ")");
      return false;
    }
    return true;
  };
  for (int i = 0; i < n; ++i) {
    Eigen::VectorXd e = Eigen::VectorXd::Zero(n); e(i) = 1;
    if (!fd_dir(e, g(i), "x[" + std::to_string(i) + "]" + (i < N ? " (time slot)" : ""))) return;
  }
  for (int q = 0; q < 3; ++q) {
    Eigen::VectorXd dir(n);
    for (int i = 0; i < n; ++i) dir(i) = t.sym(16) / 16.0;
    if (dir.norm() == 0) dir(0) = 1;
    if (!fd_dir(dir, (ld)g.dot(dir), "a generated direction")) return;
  }
  // the same call must give the same answer again, and the gradient must not depend on what grad_out held before
  Eigen::VectorXd g2 = Eigen::VectorXd::Constant(n, 777.0);
  double c2 = opt.evaluate(x, g2, costs.tc, costs.wc, costs.rc, &ws);
  VCHECK(ctx, same_val(c0, c2) && vec_same_bits(g, g2), "evaluate-repeat", who << ": repeating the evaluation (dirty output vector, reused workspace) changes the result");
}

constexpr uint64_t c07_total() { return 256ull * 3ull; }
void c07(Tape& t, Ctx& ctx) {
  uint64_t idx = t.raw() % c07_total();
  unsigned flagbits = (unsigned)(idx % 256);
  int mp = (int)(idx / 256);
  int N = t.pickw({2, 2, 3, 2, 1, 1}) + 1;
  double tsc;
  Problem p = gen_problem(t, N, &tsc);
  if (mp == 0) {
    OptD opt; QuadInvTimeMap tm;
    VCHECK(ctx, init_state(t, ctx, opt, p), "init-rejected", "valid problem rejected");
    c07_run(t, ctx, opt, tm, p, flagbits, "QuadInv+Identity");
  } else if (mp == 1) {
    OptI opt; IdentityTimeMap tm;
    VCHECK(ctx, init_state(t, ctx, opt, p), "init-rejected", "valid problem rejected");
    c07_run(t, ctx, opt, tm, p, flagbits, "IdentityTime+Identity");
  } else {
    int tk = t.range(0, 2);
    UserTimeMap tm(tk, (2 + t.range(0, 6)) / 4.0);
    UserSpatialMap<D> sm(1 + t.range(0, 1000), 1 + t.range(0, 30));
    OptU opt;
    opt.setTimeMap(&tm); opt.setSpatialMap(&sm);
    for (int i = 0; i <= N; ++i) { Eigen::VectorXd v = p.P.row(i).transpose(); Eigen::VectorXd w = sm.project(v, i); for (int d = 0; d < D; ++d) p.P(i, d) = w(d); }
    VCHECK(ctx, init_state(t, ctx, opt, p), "init-rejected", "valid problem rejected");
    std::string mn = std::string("UserTime(kind ") + std::to_string(tk) + ")+UserSpatial";
    bool fewer = false; for (int i = 0; i <= N; ++i) if (sm.getUnconstrainedDim(i) < D) fewer = true;
    if (fewer) ctx.label("user-map:fewer-unconstrained-than-physical");
    c07_run(t, ctx, opt, tm, p, flagbits, mn.c_str());
  }
}


// ===================================================================================== C07x: non-FD cross-check (identity maps)
// The gradient is re-derived without finite differences and without library code on the oracle side: the reference minimiser
// (R2), the user's cost gradients at the reference states, the documented quadrature, and the reference Jacobian (R4).
template <class Opt, class TM, class SM>
void c07x_run(Tape& t, Ctx& ctx, Opt& opt, const TM& tm, const SM* sm, const Problem& p, const char* mapname) {
  const int N = p.N();
  unsigned flagbits = (unsigned)t.range(0, 255);
  double rho = t.flag() ? 0.0 : std::exp2(t.sym(4));
  static const int Ks[] = {1, 2, 3, 4, 5, 8, 16, 64};
  int K = Ks[t.range(0, 7)];
  double sig = std::exp((std::log(*std::min_element(p.T.begin(), p.T.end())) + std::log(*std::max_element(p.T.begin(), p.T.end()))) / 2);
  Costs costs = gen_costs(t, sig);
  costs.wc.ref = p.P.template cast<double>();   // reference waypoints of the linear-deviation term
  double rho_eff = rho * std::pow(sig, 2 * S - 1) / 64.0;
  configure(opt, p, flagbits, rho_eff, K);
  Eigen::VectorXd x = gen_x(t, opt, tm, N);
  const int n = (int)x.size();
  std::string who = std::string(oname()) + " dim=" + std::to_string(D) + " N=" + std::to_string(N) + " K=" + std::to_string(K) + " maps=" + mapname + " flags=" + flags_str(flagbits) + " rho=" + g6(rho_eff);
  if (ctx.want_desc) ctx.desc << "\"order\": \"" << oname() << "\", \"dim\": " << D << ", \"N\": " << N << ", \"K\": " << K << ", \"flags\": \"" << flags_str(flagbits) << "\", \"rho\": " << g6(rho_eff) << ", \"t0\": " << g17(p.t0) << ", \"oracle\": \"reference Jacobian\"";
  ctx.label(rho == 0 ? "rho=0" : "rho>0"); ctx.label("K=" + std::to_string(K)); ctx.label(std::string("x-maps:") + mapname);
  Eigen::VectorXd g;
  typename Opt::Workspace ws;
  double c0 = opt.evaluate(x, g, costs.tc, costs.wc, costs.rc, &ws);
  (void)c0;
  // decode by the documented layout
  LayoutModel L;
  L.build(N, D, S, flags_from_bits(flagbits), [&](int i) { return sm ? sm->getUnconstrainedDim(i) : D; });
  VCHECK(ctx, L.total == n, "dimension", who << ": decision vector has " << n << " entries, documented layout " << L.total);
  SplineCase<D> sc; sc.s = S; sc.N = N; sc.T.resize(N); sc.P = p.P; sc.bc = p.bc; sc.t0 = p.t0;
  for (int i = 0; i < N; ++i) sc.T[i] = tm.toTime(x(i));
  for (size_t k = 0; k < L.point_index.size(); ++k) {
    Eigen::VectorXd xi = x.segment(L.point_offset[k], L.point_dof[k]);
    Eigen::VectorXd ph = sm ? sm->toPhysical(xi, L.point_index[k]) : xi;
    for (int d = 0; d < D; ++d) sc.P(L.point_index[k], d) = ph(d);
  }
  { int off = L.deriv_offset; for (auto& b : L.dblocks) { for (int d = 0; d < D; ++d) sc.bc_field(b.first, b.second)(d) = x(off + d); off += D; } }
  RefSpline ref;
  ref.solve_problem(sc.ref_problem());
  if (!ref.ok) { ctx.label("oracle-inconclusive(R2 residual)"); return; }
  ref.jacobian();
  // reference partials of the cost w.r.t. coefficients and durations
  MatL gC = MatL::Zero(NC * N, D); VecL gT = VecL::Zero(N);
  MatL aC = MatL::Zero(NC * N, D); VecL aT = VecL::Zero(N);   // sums of absolute terms (for sigma)
  std::vector<ld> explicit_t(N, 0), explicit_abs(N, 0);
  ld elapsed = 0;
  for (int i = 0; i < N; ++i) {
    ld Ti = sc.T[i];
    for (int k = 0; k <= K; ++k) {
      ld alpha = (ld)k / K, tl = alpha * Ti, w = ((k == 0 || k == K) ? 0.5L : 1.0L) * Ti / K;
      Vec st[6];
      for (int m = 0; m < 6; ++m) for (int d = 0; d < D; ++d) st[m](d) = (double)ref_poly_eval([&](int q) { return ref.C(i * NC + q, d); }, NC, tl, m).value;
      Vec gp, gv, ga, gj, gs; double gt;
      double tg = (double)((ld)p.t0 + elapsed + tl);
      double val = costs.rc((double)tl, tg, i, st[0], st[1], st[2], st[3], st[4], gp, gv, ga, gj, gs, gt);
      const Vec* gr[5] = {&gp, &gv, &ga, &gj, &gs};
      for (int m = 0; m < 5; ++m)
        for (int q = m; q < NC; ++q) {
          ld basis = ff(q, m) * RefSpline::ipow(tl, q - m);
          for (int d = 0; d < D; ++d) { gC(i * NC + q, d) += w * basis * (ld)(*gr[m])(d); aC(i * NC + q, d) += fabsl(w * basis * (ld)(*gr[m])(d)); }
        }
      ld drift = 0, drift_abs = 0;
      for (int m = 0; m < 5; ++m) for (int d = 0; d < D; ++d) { drift += (ld)(*gr[m])(d) * (ld)st[m + 1](d); drift_abs += fabsl((ld)(*gr[m])(d) * (ld)st[m + 1](d)); }
      ld wk = ((k == 0 || k == K) ? 0.5L : 1.0L) / K;
      gT(i) += wk * (ld)val + w * alpha * (drift + (ld)gt);
      aT(i) += fabsl(wk * (ld)val) + w * alpha * (drift_abs + fabsl((ld)gt));
      explicit_t[i] += w * (ld)gt; explicit_abs[i] += fabsl(w * (ld)gt);
    }
    elapsed += Ti;
  }
  // explicit global-time dependence of later segments
  { ld acc = 0, acca = 0; for (int i = N - 1; i > 0; --i) { acc += explicit_t[i]; acca += explicit_abs[i]; gT(i - 1) += acc; aT(i - 1) += acca; } }
  // user time cost and waypoint cost
  Eigen::VectorXd tg_(N); std::vector<double> Tv = sc.T;
  costs.tc(Tv, tg_);
  for (int i = 0; i < N; ++i) { gT(i) += (ld)tg_(i); aT(i) += fabsl((ld)tg_(i)); }
  Eigen::MatrixXd wq = Eigen::MatrixXd::Zero(N + 1, D);
  { MatrixType Pd = sc.P; costs.wc(Pd, wq); }
  // energy
  VecL Tl(N); for (int i = 0; i < N; ++i) Tl(i) = sc.T[i];
  if (rho_eff > 0) {
    RefEnergy re = ref_energy(ref.C, Tl, S, D, true);
    gC += (ld)rho_eff * re.dC; aC += (ld)rho_eff * re.dC.cwiseAbs();
    gT += (ld)rho_eff * re.dT; aT += (ld)rho_eff * re.dT_abs;
  }
  RefSpline::Adjoint ad = ref.adjoint(gC, gT);
  RefSpline::Adjoint ab = ref.adjoint(aC, aT);   // condition-aware scale from the absolute partials
  if (rho_eff > 0) {  // energy at rounding level (e.g. straight-line data): data-based natural magnitude of its gradient
    std::vector<ld> dn; ld dt_, Tmax;
    energy_nat(sc, dn, dt_, &Tmax);
    for (int d = 0; d < D; ++d) {
      for (int r = 0; r <= N; ++r) ab.theta_nat(r, d) += (ld)rho_eff * dn[d];
      for (int m = 1; m < S; ++m) { ab.theta_nat(N + m, d) += (ld)rho_eff * dn[d] * RefSpline::ipow(Tmax, m); ab.theta_nat(N + (S - 1) + m, d) += (ld)rho_eff * dn[d] * RefSpline::ipow(Tmax, m); }
    }
    for (int i = 0; i < N; ++i) ab.times_nat(i) += (ld)rho_eff * dt_;
  }
  const ld tau = 1e-7L;
  const ld tz = S == 2 ? 1e-12L : (S == 3 ? 1e-11L : 1e-10L);
  // lib entry vs reference entry with an allowance; `allow` already contains tau*sigma + structural-zero floor of the physical quantity,
  // pushed through the map's backward rule (maps are user code: their own backward functions are applied to the reference gradient)
  auto cmp = [&](int slot, ld refv, ld allow, ld sigma_like, const std::string& name) -> bool {
    ld e = fabsl((ld)g(slot) - refv);
    if (sigma_like > 0) ctx.maxi(std::string("x_err_over_allow_") + oname(), (double)(e / (allow + 1e-300L)));
    if (!(e <= allow + 1e-280L)) {
      VFAILNR(ctx, "gradient-vs-reference", who << ": gradient entry " << slot << " (" << name << ") is " << g17(g(slot)) << " but the reference (reference Jacobian applied to the user gradients and the documented quadrature, then the map's backward rule) gives " << lg(refv) << " (|diff| = " << lg(e) << ", allowed " << lg(allow) << ")");
      return false;
    }
    return true;
  };
  for (int i = 0; i < N; ++i) {
    ld dTdtau = (ld)tm.backward(x(i), sc.T[i], 1.0);
    ld allow = fabsl(dTdtau) * (tau * ab.times_sigma(i) + tz * ab.times_nat(i));
    if (!cmp(i, dTdtau * ad.times(i), allow, ab.times_sigma(i), "time slot " + std::to_string(i))) return;
  }
  for (size_t k = 0; k < L.point_index.size(); ++k) {
    int i = L.point_index[k];
    int dof = L.point_dof[k];
    Eigen::VectorXd xi = x.segment(L.point_offset[k], dof);
    std::vector<ld> refv(dof, 0), allow(dof, 0), sg(dof, 0);
    for (int d = 0; d < D; ++d) {
      Eigen::VectorXd e = Eigen::VectorXd::Zero(D); e(d) = 1.0;
      Eigen::VectorXd Jrow = sm ? Eigen::VectorXd(sm->backwardGrad(xi, e, i)) : e;   // d p_d / d xi
      ld gp = ad.theta(i, d) + (ld)wq(i, d);
      ld ap = tau * (ab.theta_sigma(i, d) + fabsl((ld)wq(i, d))) + tz * ab.theta_nat(i, d);
      for (int q = 0; q < dof; ++q) { refv[q] += (ld)Jrow(q) * gp; allow[q] += fabsl((ld)Jrow(q)) * ap; sg[q] += fabsl((ld)Jrow(q)) * ab.theta_sigma(i, d); }
    }
    for (int q = 0; q < dof; ++q)
      if (!cmp(L.point_offset[k] + q, refv[q], allow[q] * (sm ? 4 : 1), sg[q], "waypoint " + std::to_string(i) + " unconstrained coordinate " + std::to_string(q))) return;
  }
  { int off = L.deriv_offset;
    for (auto& b : L.dblocks) {
      int row = N + 1 + (b.first ? (S - 1) : 0) + (b.second - 1);
      for (int d = 0; d < D; ++d) if (!cmp(off + d, ad.theta(row, d), tau * ab.theta_sigma(row, d) + tz * ab.theta_nat(row, d), ab.theta_sigma(row, d), std::string(b.first ? "end" : "start") + " derivative of order " + std::to_string(b.second) + " coordinate " + std::to_string(d))) return;
      off += D;
    } }
  bool gt_used = costs.rc.obs != 0 || costs.rc.sn != 0 || costs.rc.lin_t != 0;
  ctx.nontrivial = (flagbits & 0xEE) != 0 && K >= 2 && gt_used;
}


void c07x(Tape& t, Ctx& ctx) {
  int mp = t.range(0, 2);
  int N = t.pickw({2, 2, 3, 2, 1, 1}) + 1;
  double tsc;
  Problem p = gen_problem(t, N, &tsc);
  if (mp == 0) { OptI opt; IdentityTimeMap tm; VCHECK(ctx, init_state(t, ctx, opt, p), "init-rejected", "valid problem rejected"); c07x_run(t, ctx, opt, tm, (const UserSpatialMap<D>*)nullptr, p, "IdentityTime+Identity"); }
  else if (mp == 1) { OptD opt; QuadInvTimeMap tm; VCHECK(ctx, init_state(t, ctx, opt, p), "init-rejected", "valid problem rejected"); c07x_run(t, ctx, opt, tm, (const UserSpatialMap<D>*)nullptr, p, "QuadInv+Identity"); }
  else {
    UserTimeMap tm(t.range(0, 2), (2 + t.range(0, 6)) / 4.0);
    UserSpatialMap<D> sm(1 + t.range(0, 1000), 1 + t.range(0, 30));
    OptU opt; opt.setTimeMap(&tm); opt.setSpatialMap(&sm);
    for (int i = 0; i <= N; ++i) { Eigen::VectorXd v = p.P.row(i).transpose(); Eigen::VectorXd w = sm.project(v, i); for (int d = 0; d < D; ++d) p.P(i, d) = w(d); }
    VCHECK(ctx, init_state(t, ctx, opt, p), "init-rejected", "valid problem rejected");
    c07x_run(t, ctx, opt, tm, &sm, p, "UserTime+UserSpatial");
  }
}

// ===================================================================================== C08
template <class Opt, class TM, class SM>
void c08_run(Tape& t, Ctx& ctx, Opt& opt, const TM& tm, const SM* sm, const Problem& p, const char* mapname) {
  const int N = p.N();
  unsigned flagbits = (unsigned)t.range(0, 255);
  double rho = t.flag() ? 0.0 : std::exp2(t.sym(3));
  static const int Ks[] = {1, 2, 3, 4, 5, 7, 8, 16, 33, 64};
  int K = Ks[t.range(0, 9)];
  if (t.chance(1, 3)) K = t.range(1, 256);   // "every K >= 1": a third of the cases draw the resolution uniformly from 1..256
  double sig = std::exp((std::log(*std::min_element(p.T.begin(), p.T.end())) + std::log(*std::max_element(p.T.begin(), p.T.end()))) / 2);
  Costs costs = gen_costs(t, sig);
  costs.wc.ref = p.P.template cast<double>();   // reference waypoints of the linear-deviation term
  double rho_eff = rho * std::pow(sig, 2 * S - 1) / 64.0;
  configure(opt, p, flagbits, rho_eff, K);
  // a quarter of the cases work through a copy of the configured optimizer (copy-constructed or assigned over a differently configured one)
  Opt cp_ctor(opt), cp_asg;
  cp_asg.setIntegralNumSteps(K == 7 ? 9 : 7); cp_asg = opt;
  int which_obj = t.pickw({6, 1, 1});
  Opt& o = which_obj == 0 ? opt : (which_obj == 1 ? cp_ctor : cp_asg);
  if (which_obj) ctx.label(which_obj == 1 ? "object:copy-constructed" : "object:assigned");
  Eigen::VectorXd x = gen_x(t, o, tm, N);
  // "every decision vector": one or all time variables decode to a duration far below what a reference problem may contain
  if (t.chance(1, 8)) {
    static const double kTiny[] = {4e-4, 1e-4, 2e-5};
    double Tt = kTiny[t.range(0, 2)];
    int which = t.range(0, N);
    for (int i = 0; i < N; ++i) if (which == N || which == i) x(i) = tm.toTau(Tt);
    ctx.label("x:tiny-duration");
  }
  ctx.label(std::string("maps:") + mapname);
  ctx.label(rho == 0 ? "rho=0" : "rho>0");
  ctx.nontrivial = K >= 2 && N >= 2 && p.t0 != 0;
  std::string who = std::string(oname()) + " dim=" + std::to_string(D) + " N=" + std::to_string(N) + " K=" + std::to_string(K) + " maps=" + mapname + " flags=" + flags_str(flagbits) + " start=" + g17(p.t0);
  if (ctx.want_desc) ctx.desc << "\"order\": \"" << oname() << "\", \"dim\": " << D << ", \"N\": " << N << ", \"K\": " << K << ", \"maps\": \"" << mapname << "\", \"flags\": \"" << flags_str(flagbits) << "\", \"rho\": " << g6(rho_eff) << ", \"t0\": " << g17(p.t0);
  std::vector<RunCall<D>> log;
  Costs rec = costs; rec.rc.record = &log;
  Eigen::VectorXd g;
  bool own_ws = t.flag();
  typename Opt::Workspace ws;
  if (own_ws && t.flag()) {
    // the caller-owned workspace was last used by another optimizer for a different problem (same or different segment count)
    double ts2; Problem q = gen_problem(t, t.flag() ? N : 1 + t.range(0, 5), &ts2);
    OptD other; other.setInitState(q.T, q.P, q.t0, q.bc);
    other.setOptimizationFlags(flags_from_bits((unsigned)t.range(0, 255)));
    other.setIntegralNumSteps(3);
    Eigen::VectorXd xo = other.generateInitialGuess(), go;
    if constexpr (std::is_same<typename Opt::Workspace, typename OptD::Workspace>::value) { other.evaluate(xo, go, costs.tc, costs.wc, costs.rc, &ws); ctx.label("workspace:reused-from-other-problem"); }
  }
  double cost = o.evaluate(x, g, rec.tc, rec.wc, rec.rc, own_ws ? &ws : nullptr);
  const Spline& sp = own_ws ? ws.spline : *o.getOptimalSpline();
  // decoded problem as the optimizer's workspace spline reports it (C09 vouches for the decode itself)
  std::vector<double> T = sp.getTimeSegments();
  // waypoints and boundary state decoded independently from the decision vector by the documented layout
  MatrixType P = p.P;
  BoundaryConditions<D> bcx = p.bc;
  {
    LayoutModel L;
    L.build(N, D, S, flags_from_bits(flagbits), [&](int i) { return sm ? sm->getUnconstrainedDim(i) : D; });
    VCHECK(ctx, L.total == (int)x.size(), "dimension", who << ": decision vector has " << x.size() << " entries, documented layout " << L.total);
    for (size_t k = 0; k < L.point_index.size(); ++k) {
      int i = L.point_index[k];
      Eigen::VectorXd xi = x.segment(L.point_offset[k], L.point_dof[k]);
      Eigen::VectorXd ph = sm ? sm->toPhysical(xi, i) : xi;
      for (int d = 0; d < D; ++d) P(i, d) = ph(d);
    }
    int off = L.deriv_offset;
    for (auto& b : L.dblocks) { for (int d = 0; d < D; ++d) bcf(bcx, b.first, b.second)(d) = x(off + d); off += D; }
  }
  for (int i = 0; i < N; ++i) VCHECK(ctx, same_val(T[i], tm.toTime(x(i))), "decode", who << ": decoded duration " << i << " is not toTime(x_i)");
  VCHECK(ctx, mat_same_bits(sp.getSpacePoints(), P), "decode", who << ": the trajectory that was integrated does not pass through the decoded waypoints (not-optimised end points must be the reference ones): " << first_diff(sp.getSpacePoints(), P));
  {
    const auto& b2 = sp.getBoundaryConditions();
    VCHECK(ctx, vec_same_bits(b2.start_velocity, bcx.start_velocity) && vec_same_bits(b2.end_velocity, bcx.end_velocity) && vec_same_bits(b2.start_acceleration, bcx.start_acceleration) &&
                    vec_same_bits(b2.end_acceleration, bcx.end_acceleration) && vec_same_bits(b2.start_jerk, bcx.start_jerk) && vec_same_bits(b2.end_jerk, bcx.end_jerk),
           "decode", who << ": the trajectory that was integrated does not have the decoded boundary state");
  }
  const auto& C = sp.getTrajectory().getCoefficients();
  // ---- the call log: exactly N(K+1) calls, each (i,k) once, correct times and states
  VCHECK(ctx, (int)log.size() == N * (K + 1), "sample-count", who << ": the running cost was called " << log.size() << " times, expected N*(K+1) = " << N * (K + 1));
  std::vector<int> seen((size_t)N * (K + 1), 0);
  ld integral = 0, integral_abs = 0;
  Costs plain = costs;
  ld elapsed[64]; { ld a = 0; for (int i = 0; i < N; ++i) { elapsed[i] = a; a += (ld)T[i]; } }
  for (const auto& c : log) {
    VCHECK(ctx, c.i >= 0 && c.i < N, "sample-segment", who << ": sample with segment index " << c.i);
    ld Ti = T[c.i];
    // which k?
    ld kf = (ld)c.t / Ti * K;
    int k = (int)llroundl(kf);
    VCHECK(ctx, k >= 0 && k <= K && fabsl((ld)c.t - (ld)k / K * Ti) <= 4 * (ld)DBL_EPSILON * Ti, "sample-local-time", who << ": sample on segment " << c.i << " has local time " << g17(c.t) << ", not a node k/K*T of T=" << g17(T[c.i]));
    VCHECK(ctx, ++seen[(size_t)c.i * (K + 1) + k] == 1, "sample-duplicate", who << ": node (segment " << c.i << ", k=" << k << ") sampled more than once");
    ld tg = (ld)p.t0 + elapsed[c.i] + (ld)c.t;
    ld tgmag = fabsl((ld)p.t0) + elapsed[c.i] + Ti;
    VCHECK(ctx, fabsl((ld)c.tg - tg) <= 4 * (ld)DBL_EPSILON * tgmag * (c.i + 2), "sample-global-time",
           who << ": sample (segment " << c.i << ", k=" << k << ") has global time " << g17(c.tg) << " but start + elapsed durations + local time = " << lg(tg));
    const Vec* st[5] = {&c.p, &c.v, &c.a, &c.j, &c.s};
    static const char* nm[5] = {"position", "velocity", "acceleration", "jerk", "snap"};
    for (int m = 0; m < 5; ++m)
      for (int d = 0; d < D; ++d) {
        RefVal r = ref_poly_eval([&](int q) { return C(c.i * NC + q, d); }, NC, (ld)c.t, m);
        ld gam = 4 * horner_gamma(NC, r.abssum) + (ld)DBL_MIN * 64;
        ld e = fabsl((ld)(*st[m])(d) - r.value);
        if (r.abssum > 0) ctx.maxi("state_err_over_4gamma", (double)(e / gam));
        VCHECK(ctx, e <= gam, "sample-state", who << ": " << nm[m] << " handed to the running cost at (segment " << c.i << ", k=" << k << ", t=" << g17(c.t) << ") coordinate " << d << " is " << g17((*st[m])(d)) << " but the trajectory's " << nm[m] << " there is " << lg(r.value));
      }
    // reference integral term from the logged (validated) samples, trapezoid weights
    Vec gp, gv, ga, gj, gs; double gt;
    double val = plain.rc(c.t, c.tg, c.i, c.p, c.v, c.a, c.j, c.s, gp, gv, ga, gj, gs, gt);
    ld w = (k == 0 || k == K) ? 0.5L : 1.0L;
    integral += w * (Ti / K) * (ld)val;
    integral_abs += fabsl(w * (Ti / K) * (ld)val);
  }
  for (size_t q = 0; q < seen.size(); ++q) VCHECK(ctx, seen[q] == 1, "sample-missing", who << ": node (segment " << q / (K + 1) << ", k=" << q % (K + 1) << ") was never sampled");
  // ---- decomposition
  Eigen::VectorXd gtmp(N);
  ld tcv = plain.tc(T, gtmp);
  Eigen::MatrixXd gq = Eigen::MatrixXd::Zero(N + 1, D);
  ld wcv = plain.wc(P, gq);
  VecL Tl(N); for (int i = 0; i < N; ++i) Tl(i) = T[i];
  RefEnergy re = ref_energy(C, Tl, S, D, false);
  ld ref = tcv + wcv + integral + (rho_eff > 0 ? (ld)rho_eff * re.E : 0);
  ld refabs = fabsl(tcv) + fabsl(wcv) + integral_abs + (ld)rho_eff * re.abssum;
  ld err = fabsl((ld)cost - ref);
  if (refabs > 0) ctx.maxi(std::string("cost_err_") + oname(), (double)(err / refabs));
  if (!std::isfinite((double)refabs)) ctx.label("cost-overflow(skipped)");
  else {
    VCHECK(ctx, err <= 1e-9L * refabs + 1e-280L, "cost-decomposition",
           who << ": returned cost " << g17(cost) << " but time cost " << lg(tcv) << " + waypoint cost " << lg(wcv) << " + trapezoid integral " << lg(integral) << " + weight*energy " << lg((ld)rho_eff * re.E) << " = " << lg(ref));
  }
  // ---- two-cost overload = three-cost overload with a zero waypoint cost, bitwise
  {
    Costs zero_w = costs; zero_w.wc = WaypointCostP<D>();
    Eigen::VectorXd ga, gb;
    typename Opt::Workspace w1, w2;
    double ca = o.evaluate(x, ga, costs.tc, costs.rc, &w1);
    double cb = o.evaluate(x, gb, zero_w.tc, zero_w.wc, zero_w.rc, &w2);
    VCHECK(ctx, same_val(ca, cb) && vec_same_bits(ga, gb), "two-cost-overload", who << ": the two-cost overload (" << g17(ca) << ") differs from the three-cost overload with a zero waypoint cost (" << g17(cb) << ")");
  }
  // ---- trapezoid weights: c == 1 integrates to sum T; c = t_global integrates exactly (linear), both independent of K
  {
    Costs one; one.rc.cst = 1.0;
    Costs lin; lin.rc.lin_t = 1.0;
    o.setEnergyWeights(0.0);
    Eigen::VectorXd gg;
    typename Opt::Workspace w3;
    double c1 = o.evaluate(x, gg, one.tc, one.rc, &w3);
    ld sumT = 0; for (int i = 0; i < N; ++i) sumT += (ld)T[i];
    VCHECK(ctx, fabsl((ld)c1 - sumT) <= 64 * (ld)DBL_EPSILON * sumT * (K + 2), "trapezoid-weights", who << ": integrating the constant 1 gives " << g17(c1) << " instead of the total duration " << lg(sumT));
    double c2 = o.evaluate(x, gg, lin.tc, lin.rc, &w3);
    ld exact = 0; for (int i = 0; i < N; ++i) exact += (ld)T[i] * ((ld)p.t0 + elapsed[i] + (ld)T[i] / 2);
    ld mag = 0; for (int i = 0; i < N; ++i) mag += (ld)T[i] * (fabsl((ld)p.t0) + elapsed[i] + (ld)T[i]);
    VCHECK(ctx, fabsl((ld)c2 - exact) <= 64 * (ld)DBL_EPSILON * mag * (K + 2), "trapezoid-weights", who << ": integrating t_global gives " << g17(c2) << " instead of " << lg(exact) << " (the trapezoid rule is exact for a linear integrand)");
    o.setEnergyWeights(rho_eff);
  }
}

void c08(Tape& t, Ctx& ctx) {
  int mp = t.range(0, 2);
  int N = t.pickw({2, 2, 3, 2, 1, 1}) + 1;
  double tsc;
  Problem p = gen_problem(t, N, &tsc);
  if (mp == 0) { OptD opt; QuadInvTimeMap tm; VCHECK(ctx, init_state(t, ctx, opt, p), "init-rejected", "valid problem rejected"); c08_run(t, ctx, opt, tm, (const UserSpatialMap<D>*)nullptr, p, "QuadInv+Identity"); }
  else if (mp == 1) { OptI opt; IdentityTimeMap tm; VCHECK(ctx, init_state(t, ctx, opt, p), "init-rejected", "valid problem rejected"); c08_run(t, ctx, opt, tm, (const UserSpatialMap<D>*)nullptr, p, "IdentityTime+Identity"); }
  else {
    UserTimeMap tm(t.range(0, 2), (2 + t.range(0, 6)) / 4.0);
    UserSpatialMap<D> sm(1 + t.range(0, 1000), 1 + t.range(0, 30));
    OptU opt; opt.setTimeMap(&tm); opt.setSpatialMap(&sm);
    for (int i = 0; i <= N; ++i) { Eigen::VectorXd v = p.P.row(i).transpose(); Eigen::VectorXd w = sm.project(v, i); for (int d = 0; d < D; ++d) p.P(i, d) = w(d); }
    VCHECK(ctx, init_state(t, ctx, opt, p), "init-rejected", "valid problem rejected");
    c08_run(t, ctx, opt, tm, &sm, p, "UserTime+UserSpatial");
  }
}


// ===================================================================================== C19
template <class Opt, class TM>
void c19_run(Tape& t, Ctx& ctx, Opt& opt, const TM& tm, const Problem& p, const char* mapname) {
  const int N = p.N();
  unsigned flagbits = (unsigned)t.range(0, 255);
  double rho = t.flag() ? 0.0 : std::exp2(t.sym(3));
  static const int Ks[] = {1, 2, 3, 4, 8, 16};
  int K = Ks[t.range(0, 5)];
  double sig = std::exp((std::log(*std::min_element(p.T.begin(), p.T.end())) + std::log(*std::max_element(p.T.begin(), p.T.end()))) / 2);
  Costs costs = gen_costs(t, sig);
  costs.wc.ref = p.P.template cast<double>();   // reference waypoints of the linear-deviation term
  double rho_eff = rho * std::pow(sig, 2 * S - 1) / 64.0;
  // a sixth of the cases scale the whole cost down so that the gradient norm lies around the helper's thresholds (1e-9, tol)
  if (t.chance(1, 6)) { double f = std::pow(10.0, -t.range(4, 10)); scale_costs(costs, f); rho_eff *= f; ctx.label("cost-scale:tiny"); }
  configure(opt, p, flagbits, rho_eff, K);
  Eigen::VectorXd x = gen_x(t, opt, tm, N);
  const int n = (int)x.size();
  static const double epss[] = {1e-6, 1e-5, 1e-4};
  int ei = t.pickw({3, 1, 1});
  double eps = epss[ei];
  bool two_cost = t.flag();
  bool own_ws = t.flag();
  if (two_cost) costs.wc = WaypointCostP<D>();  // the two-cost overload has no waypoint cost
  std::string who = std::string(oname()) + " dim=" + std::to_string(D) + " N=" + std::to_string(N) + " K=" + std::to_string(K) + " maps=" + mapname + " flags=" + flags_str(flagbits) + " eps=" + g6(eps) + (two_cost ? " two-cost overload" : " three-cost overload") + (own_ws ? " own workspace" : " built-in workspace");
  ctx.label(std::string("maps:") + mapname); ctx.label(two_cost ? "overload:two-cost" : "overload:three-cost"); ctx.label(own_ws ? "workspace:own" : "workspace:built-in");
  ctx.label("eps=" + g6(eps));
  if (ctx.want_desc) ctx.desc << "\"order\": \"" << oname() << "\", \"dim\": " << D << ", \"N\": " << N << ", \"K\": " << K << ", \"maps\": \"" << mapname << "\", \"flags\": \"" << flags_str(flagbits) << "\", \"eps\": " << g6(eps) << ", \"two_cost\": " << (two_cost ? "true" : "false") << ", \"own_ws\": " << (own_ws ? "true" : "false");
  // ---- the documented procedure, re-enacted through plain evaluate calls on a separate workspace
  typename Opt::Workspace wm;
  Eigen::VectorXd g;
  auto eval = [&](const Costs& c, const Eigen::VectorXd& y, Eigen::VectorXd& gg, typename Opt::Workspace* w) {
    return two_cost ? opt.evaluate(y, gg, c.tc, c.rc, w) : opt.evaluate(y, gg, c.tc, c.wc, c.rc, w);
  };
  double c0 = eval(costs, x, g, &wm);
  (void)c0;
  Eigen::VectorXd num(n), dummy;
  double cmax = std::fabs(c0);
  for (int i = 0; i < n; ++i) {
    Eigen::VectorXd y = x;
    y(i) = x(i) + eps; double cp = eval(costs, y, dummy, &wm);
    y(i) = x(i) - eps; double cm = eval(costs, y, dummy, &wm);
    num(i) = (cp - cm) / (2 * eps);
    cmax = std::max(cmax, std::max(std::fabs(cp), std::fabs(cm)));
  }
  double nu = (g - num).norm();
  // for correct functors the two gradients the self-check is about can differ only by what central differences at this step
  // resolve: a generous bound (1e-3 of the larger norm + 100 x the rounding level of the cost / eps + the default tolerance);
  // finer agreement is C07's subject, a gross disagreement (a whole block of the gradient missing) makes every verdict meaningless
  {
    const double noise_rel19 = S == 2 ? 1e-14 : (S == 3 ? 1e-13 : 1e-11);
    double gn = std::max(g.norm(), num.norm());
    double allow = 1e-3 * gn + 100 * (8 * DBL_EPSILON + noise_rel19) * cmax / eps * std::sqrt((double)n) + 1e-4;
    ctx.maxi(std::string("c19_nu_over_allow_") + oname(), nu / allow);
    VCHECK(ctx, nu <= allow, "correct-functors-inconsistent",
           who << ": with correct cost functors the gradient written by evaluate and the central differences of the optimizer's own cost differ by " << g17(nu) << " (norms " << g17(g.norm()) << " / " << g17(num.norm())
               << "), far beyond what differences at eps=" << g6(eps) << " resolve (" << g17(allow) << "): no verdict of the self-check can be trusted");
  }
  // state a plain evaluation leaves behind (fresh workspace)
  typename Opt::Workspace wfresh;
  Eigen::VectorXd gfresh;
  eval(costs, x, gfresh, &wfresh);
  auto run_helper = [&](const Costs& c, double tol, typename Opt::Workspace* w) {
    return two_cost ? opt.checkGradients(x, c.tc, c.rc, w, eps, tol) : opt.checkGradients(x, c.tc, c.wc, c.rc, w, eps, tol);
  };
  // ---- tolerance relative to the measured resolution of the helper's own differences
  int tc = t.range(0, 2);
  double tol = tc == 0 ? std::max(1e-4, 20 * nu) : (tc == 1 ? 200 * nu : 2000 * nu);
  if (!(tol > 0)) tol = 1e-4;
  bool default_tol = (tol == 1e-4);
  ctx.label(default_tol ? "tol:default-1e-4" : (tc == 0 ? "tol:20nu" : (tc == 1 ? "tol:200nu" : "tol:2000nu")));
  typename Opt::Workspace wown;
  typename Opt::Workspace* wp = own_ws ? &wown : nullptr;
  // the default-argument forms (eps = 1e-6, tol = 1e-4) are used when that is exactly what this case models
  bool use_default_form = default_tol && eps == 1e-6 && t.flag();
  if (use_default_form) ctx.label("call:default-arguments");
  auto res = use_default_form ? (two_cost ? (own_ws ? opt.checkGradients(x, costs.tc, costs.rc, wp) : opt.checkGradients(x, costs.tc, costs.rc))
                                          : (own_ws ? opt.checkGradients(x, costs.tc, costs.wc, costs.rc, wp) : opt.checkGradients(x, costs.tc, costs.wc, costs.rc)))
                              : run_helper(costs, tol, wp);
  const bool numerics_comparable = true;
  // part 1: procedure
  VCHECK(ctx, res.analytical.size() == n && res.numerical.size() == n, "result-shape", who << ": result vectors have sizes " << res.analytical.size() << "/" << res.numerical.size() << " for " << n << " variables");
  VCHECK(ctx, vec_same_bits(res.analytical, g), "analytical-not-gradient", who << ": the 'analytical' vector differs from the gradient written by a direct evaluate at the checked vector");
  if (numerics_comparable) {
    for (int i = 0; i < n; ++i) {
      double allow = 1e-9 * std::fabs(num(i)) + 64 * DBL_EPSILON * cmax / eps + 1e-280;
      VCHECK(ctx, std::fabs(res.numerical(i) - num(i)) <= allow, "numerical-not-central-difference",
             who << ": numerical[" << i << "] = " << g17(res.numerical(i)) << " but the central difference (c(x+eps e_i) - c(x-eps e_i))/(2 eps) of the optimizer's own cost is " << g17(num(i)));
    }
  }
  {
    double en = (res.analytical - res.numerical).norm();
    VCHECK(ctx, std::fabs(res.error_norm - en) <= 1e-12 * (en + 1e-300) + 1e-300, "error-norm", who << ": error_norm " << g17(res.error_norm) << " is not |analytical - numerical| = " << g17(en));
    double gn = res.analytical.norm();
    double rel = gn > 1e-9 ? en / gn : en;
    VCHECK(ctx, std::fabs(res.rel_error - rel) <= 1e-9 * (rel + 1e-300) + 1e-300, "rel-error", who << ": rel_error " << g17(res.rel_error) << " inconsistent with the returned vectors (" << g17(rel) << ")");
    VCHECK(ctx, !res.makeReport().empty(), "report", who << ": empty report");
  }
  {
    const Spline& after = own_ws ? wown.spline : *opt.getOptimalSpline();
    VCHECK(ctx, mat_same_bits(after.getTrajectory().getCoefficients(), wfresh.spline.getTrajectory().getCoefficients()) && after.getTimeSegments() == wfresh.spline.getTimeSegments() &&
                    mat_same_bits(after.getSpacePoints(), wfresh.spline.getSpacePoints()),
           "state-not-restored", who << ": after the self-check the workspace's spline is not the one defined by the checked decision vector: " << first_diff(after.getTrajectory().getCoefficients(), wfresh.spline.getTrajectory().getCoefficients()));
  }
  {
    double gn = res.analytical.norm();
    ctx.label(gn > 1e-4 ? "gradient-norm>1e-4" : (gn > 1e-9 ? "gradient-norm in (1e-9,1e-4]" : "gradient-norm<=1e-9"));
  }
  // ---- a second self-check on the same optimizer and workspace at ANOTHER vector of the same size: nothing of the first call may survive
  if (t.chance(1, 3)) {
    // half of the time the optimizer is re-initialised in between with a problem of the same size whose NON-optimised data differ
    // (fixed end points, fixed boundary derivatives): the second check is about that problem
    const bool recfg = t.flag();
    if (recfg) {
      Problem p2 = p;
      for (int d = 0; d < D; ++d) { p2.P(0, d) += 0.5; p2.P(N, d) -= 0.25; }
      for (int e = 0; e < 2; ++e) for (int m = 1; m <= 3; ++m) for (int d = 0; d < D; ++d) bcf(p2.bc, e == 1, m)(d) += 0.25;
      VCHECK(ctx, opt.setInitState(p2.T, p2.P, p2.t0, p2.bc), "init-rejected", "valid problem rejected on re-initialisation");
      ctx.label("second-self-check:after-reinitialisation");
    }
    Eigen::VectorXd x2 = gen_x(t, opt, tm, N);
    Eigen::VectorXd g2, d2;
    typename Opt::Workspace wm2;
    double c2 = eval(costs, x2, g2, &wm2);
    double cmax2 = std::fabs(c2);
    Eigen::VectorXd num2(n);
    for (int i = 0; i < n; ++i) {
      Eigen::VectorXd y = x2;
      y(i) = x2(i) + eps; double cp = eval(costs, y, d2, &wm2);
      y(i) = x2(i) - eps; double cm = eval(costs, y, d2, &wm2);
      num2(i) = (cp - cm) / (2 * eps);
      cmax2 = std::max(cmax2, std::max(std::fabs(cp), std::fabs(cm)));
    }
    auto res2 = two_cost ? opt.checkGradients(x2, costs.tc, costs.rc, wp, eps, tol) : opt.checkGradients(x2, costs.tc, costs.wc, costs.rc, wp, eps, tol);
    VCHECK(ctx, res2.analytical.size() == n && vec_same_bits(res2.analytical, g2), "analytical-not-gradient", who << ": second self-check on the same object: the 'analytical' vector is not the gradient at the second vector");
    for (int i = 0; i < n; ++i) {
      double allow = 1e-9 * std::fabs(num2(i)) + 64 * DBL_EPSILON * cmax2 / eps + 1e-280;
      VCHECK(ctx, std::fabs(res2.numerical(i) - num2(i)) <= allow, "numerical-not-central-difference",
             who << ": second self-check on the same object (another vector of the same size): numerical[" << i << "] = " << g17(res2.numerical(i)) << " but the central difference at that vector is " << g17(num2(i)));
    }
    typename Opt::Workspace wf2; Eigen::VectorXd gf2;
    eval(costs, x2, gf2, &wf2);
    const Spline& after2 = own_ws ? wown.spline : *opt.getOptimalSpline();
    VCHECK(ctx, mat_same_bits(after2.getTrajectory().getCoefficients(), wf2.spline.getTrajectory().getCoefficients()), "state-not-restored", who << ": after a second self-check the workspace's spline is not the one of the second vector");
    // leave the object as the remaining checks expect it: the first problem again, re-run at the first vector
    if (recfg) VCHECK(ctx, opt.setInitState(p.T, p.P, p.t0, p.bc), "init-rejected", "valid problem rejected on re-initialisation");
    (void)run_helper(costs, tol, wp);
    ctx.label("second-self-check-same-object");
  }
  // part 2: verdict for correct functors
  VCHECK(ctx, res.valid, "correct-functors-rejected", who << ": correct cost functors are reported FAILED (error_norm " << g17(res.error_norm) << ", tolerance " << g17(tol) << ", measured resolution of the differences " << g17(nu) << ")");
  ctx.nontrivial = (flagbits & 0xEE) != 0;
  // ---- a functor with ONE wrong gradient component
  {
    Costs bad = costs;
    int which = t.range(0, 2);
    const char* what = "";
    if (which == 1 && two_cost) which = 2;
    if (which == 0) { bad.tc.bad_component = t.range(0, N - 1); bad.tc.bad_delta = 1.0; what = "time cost"; }
    else if (which == 1) { bad.wc.bad_row = t.range(0, N); bad.wc.bad_col = t.range(0, D - 1); bad.wc.bad_delta = 1.0; what = "waypoint cost"; }
    else { bad.rc.bad_which = t.range(0, 5); bad.rc.bad_dim = t.range(0, D - 1); bad.rc.bad_delta = 1.0; what = "running cost"; }
    Eigen::VectorXd g1;
    typename Opt::Workspace wq;
    eval(bad, x, g1, &wq);
    double delta1 = (g1 - g).norm();   // effect of a unit error in that component on the checked gradient
    if (delta1 > 0) {
      double target = (t.flag() ? 30.0 : 1000.0) * tol;
      double dlt = target / delta1;
      if (which == 0) bad.tc.bad_delta = dlt; else if (which == 1) bad.wc.bad_delta = dlt; else bad.rc.bad_delta = dlt;
      Eigen::VectorXd g2; eval(bad, x, g2, &wq);
      double Delta = (g2 - g).norm();
      if (Delta >= 10 * tol) {
        typename Opt::Workspace wb;
        auto rb = run_helper(bad, tol, own_ws ? &wb : nullptr);
        // the returned vectors and norms describe the failing check as well: the cost (hence every difference quotient) is the
        // same as with the correct functor, and the norms belong to the returned vectors
        VCHECK(ctx, rb.numerical.size() == n && rb.analytical.size() == n, "result-shape", who << ": failing check returns vectors of sizes " << rb.analytical.size() << "/" << rb.numerical.size());
        for (int i = 0; i < n; ++i) {
          double allow = 1e-9 * std::fabs(num(i)) + 64 * DBL_EPSILON * cmax / eps + 1e-280;
          VCHECK(ctx, std::fabs(rb.numerical(i) - num(i)) <= allow, "numerical-not-central-difference",
                 who << ": failing check (wrong " << what << " gradient): numerical[" << i << "] = " << g17(rb.numerical(i)) << " but the central difference of the cost is " << g17(num(i)) << " (" << n << " variables)");
        }
        {
          double en = (rb.analytical - rb.numerical).norm();
          VCHECK(ctx, std::fabs(rb.error_norm - en) <= 1e-12 * (en + 1e-300) + 1e-300, "error-norm", who << ": failing check: error_norm " << g17(rb.error_norm) << " is not |analytical - numerical| = " << g17(en) << " (" << n << " variables)");
        }
        if (n > 32) ctx.label("failing-check:>32-variables");
        VCHECK(ctx, !rb.valid, "wrong-gradient-accepted",
               who << ": a " << what << " whose supplied gradient is wrong in one component (effect on the checked gradient " << g17(Delta) << " >= 10 x tolerance " << g17(tol) << ") is reported PASSED (error_norm " << g17(rb.error_norm) << ")");
        ctx.label(std::string("perturbed:") + what);
        ctx.nontrivial = true;
      } else ctx.label("perturbed:borderline-not-judged");
    } else ctx.label("perturbed:invisible-component(not judged)");
  }
}

void c19(Tape& t, Ctx& ctx) {
  int mp = t.range(0, 1);
  int N = t.pickw({2, 2, 3, 2, 1}) + 1;
  if (t.chance(1, 10)) N = 8 + t.range(0, 8);   // problems with several dozen decision variables
  double tsc;
  Problem p = gen_problem(t, N, &tsc);
  if (mp == 0) { OptD opt; QuadInvTimeMap tm; VCHECK(ctx, init_state(t, ctx, opt, p), "init-rejected", "valid problem rejected"); c19_run(t, ctx, opt, tm, p, "QuadInv+Identity"); }
  else {
    UserTimeMap tm(t.range(0, 2), (2 + t.range(0, 6)) / 4.0);
    UserSpatialMap<D> sm(1 + t.range(0, 1000), 1 + t.range(0, 30));
    OptU opt; opt.setTimeMap(&tm); opt.setSpatialMap(&sm);
    for (int i = 0; i <= N; ++i) { Eigen::VectorXd v = p.P.row(i).transpose(); Eigen::VectorXd w = sm.project(v, i); for (int d = 0; d < D; ++d) p.P(i, d) = w(d); }
    VCHECK(ctx, init_state(t, ctx, opt, p), "init-rejected", "valid problem rejected");
    c19_run(t, ctx, opt, tm, p, "UserTime+UserSpatial");
  }
}

bool selftest(std::string& msg) {
  // every cost functor family: hand-derived gradients against central differences
  std::vector<uint32_t> words(64);
  for (size_t i = 0; i < words.size(); ++i) words[i] = mix32((uint32_t)i * 7919u + 13u);
  Tape t(words);
  Costs c = gen_costs(t, 1.0);
  c.rc.obs = 1.5; c.rc.ell = 2.0; c.rc.sn = 0.75; c.rc.lg = 0.5; c.rc.segw = 0.25;
  // running cost
  Vec st[5]; for (int m = 0; m < 5; ++m) for (int d = 0; d < D; ++d) st[m](d) = 0.3 * (m + 1) - 0.2 * d;
  double tg = 1.7;
  Vec g[5]; double gt;
  double v0 = c.rc(0.4, tg, 1, st[0], st[1], st[2], st[3], st[4], g[0], g[1], g[2], g[3], g[4], gt);
  (void)v0;
  double h = 1e-6;
  for (int m = 0; m < 5; ++m) for (int d = 0; d < D; ++d) {
    Vec a[5], b[5]; for (int q = 0; q < 5; ++q) { a[q] = st[q]; b[q] = st[q]; }
    a[m](d) += h; b[m](d) -= h;
    Vec gg[5]; double gtt;
    double fp = c.rc(0.4, tg, 1, a[0], a[1], a[2], a[3], a[4], gg[0], gg[1], gg[2], gg[3], gg[4], gtt);
    double fm = c.rc(0.4, tg, 1, b[0], b[1], b[2], b[3], b[4], gg[0], gg[1], gg[2], gg[3], gg[4], gtt);
    if (std::fabs((fp - fm) / (2 * h) - g[m](d)) > 1e-6 * (1 + std::fabs(g[m](d)))) { msg = "running-cost gradient wrong (family self-test)"; return false; }
  }
  {
    Vec gg[5]; double gtt;
    double fp = c.rc(0.4, tg + h, 1, st[0], st[1], st[2], st[3], st[4], gg[0], gg[1], gg[2], gg[3], gg[4], gtt);
    double fm = c.rc(0.4, tg - h, 1, st[0], st[1], st[2], st[3], st[4], gg[0], gg[1], gg[2], gg[3], gg[4], gtt);
    if (std::fabs((fp - fm) / (2 * h) - gt) > 1e-6 * (1 + std::fabs(gt))) { msg = "running-cost explicit-time gradient wrong (family self-test)"; return false; }
  }
  // time cost
  {
    std::vector<double> T = {0.7, 1.3, 2.1};
    Eigen::VectorXd gr;
    c.tc.c = 0.5; c.tc.d = 0.75; c.tc.b = 0.25;
    c.tc(T, gr);
    for (int i = 0; i < 3; ++i) {
      auto a = T, b = T; a[i] += h; b[i] -= h; Eigen::VectorXd dummy;
      double fd = (c.tc(a, dummy) - c.tc(b, dummy)) / (2 * h);
      if (std::fabs(fd - gr(i)) > 1e-6 * (1 + std::fabs(gr(i)))) { msg = "time-cost gradient wrong (family self-test)"; return false; }
    }
  }
  // waypoint cost
  {
    Eigen::MatrixXd q(4, D), gr(4, D), dummy(4, D);
    for (int i = 0; i < 4; ++i) for (int d = 0; d < D; ++d) q(i, d) = 0.4 * i - 0.3 * d + 0.1;
    c.wc.kappa = 0.5; c.wc.mu = 0.75; c.wc.w0 = 1.0; c.wc.w1 = 0.5;
    c.wc(q, gr);
    for (int i = 0; i < 4; ++i) for (int d = 0; d < D; ++d) {
      auto a = q, b = q; a(i, d) += h; b(i, d) -= h;
      double fd = (c.wc(a, dummy) - c.wc(b, dummy)) / (2 * h);
      if (std::fabs(fd - gr(i, d)) > 1e-6 * (1 + std::fabs(gr(i, d)))) { msg = "waypoint-cost gradient wrong (family self-test)"; return false; }
    }
  }
  // user maps: backward rules against central differences
  {
    UserTimeMap tm0(0, 1.5), tm1(1, 2.0);
    for (const UserTimeMap* tm : {&tm0, &tm1}) for (double tau : {-1.0, 0.3, 2.0}) {
      double fd = (tm->toTime(tau + h) - tm->toTime(tau - h)) / (2 * h);
      if (std::fabs(fd - tm->backward(tau, tm->toTime(tau), 1.0)) > 1e-6 * (1 + fd)) { msg = "user time map backward rule wrong (self-test)"; return false; }
      if (std::fabs(tm->toTau(tm->toTime(tau)) - tau) > 1e-9) { msg = "user time map inverse wrong (self-test)"; return false; }
    }
    UserSpatialMap<D> sm(5, 0x1f);
    for (int idx = 0; idx < 12; ++idx) {
      int dof = sm.getUnconstrainedDim(idx);
      Eigen::VectorXd xi(dof); for (int k = 0; k < dof; ++k) xi(k) = 0.7 - 0.4 * k;
      Eigen::VectorXd gp(D); for (int d = 0; d < D; ++d) gp(d) = 1.0 - 0.5 * d;
      Eigen::VectorXd bw = sm.backwardGrad(xi, gp, idx);
      for (int k = 0; k < dof; ++k) {
        Eigen::VectorXd a = xi, b = xi; a(k) += h; b(k) -= h;
        double fd = gp.dot(sm.toPhysical(a, idx) - sm.toPhysical(b, idx)) / (2 * h);
        if (std::fabs(fd - bw(k)) > 1e-6 * (1 + std::fabs(bw(k)))) { msg = "user spatial map backwardGrad wrong (self-test)"; return false; }
      }
      Eigen::VectorXd pim = sm.toPhysical(xi, idx);
      if ((sm.project(pim, idx) - pim).norm() > 1e-9 * (1 + pim.norm())) { msg = "user spatial map projection is not idempotent on its image (self-test)"; return false; }
    }
  }
  return true;
}

Registrar r07({"C07", std::string("gradient vs finite differences ") + SplineOf<VDIM, (VORDER + 1) / 2>::name() + " dim=" + std::to_string(VDIM), 500, c07_total(), c07, selftest});
Registrar r19({"C19", std::string("checkGradients ") + SplineOf<VDIM, (VORDER + 1) / 2>::name() + " dim=" + std::to_string(VDIM), 500, 0, c19, nullptr});
Registrar r07x({"C07x", std::string("gradient vs reference Jacobian ") + SplineOf<VDIM, (VORDER + 1) / 2>::name() + " dim=" + std::to_string(VDIM), 500, 0, c07x, nullptr});
Registrar r08({"C08", std::string("cost decomposition ") + SplineOf<VDIM, (VORDER + 1) / 2>::name() + " dim=" + std::to_string(VDIM), 500, 0, c08, nullptr});

}  // namespace oc
