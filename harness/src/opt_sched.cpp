// opt_sched.cpp - one binary per spline order (-DVORDER=3|5|7, -DVDIM=2|3):
//   C12  (schedule half, ASan build)  cost/gradient/workspace spline are bit-identical to serial execution for every executor schedule
//   C12r (race half, TSan build -DVRACE) concurrent evaluations on one configured optimizer, each with its own workspace
//   C10o optimizer workspaces reused across problems, sizes and optimizers give bit-identical results to fresh ones
#include "opt_common.hpp"
#ifdef _OPENMP
#include <omp.h>
#endif

#ifndef VDIM
#define VDIM 2
#endif
#ifndef VORDER
#define VORDER 5
#endif

using namespace vf;
using namespace SplineTrajectory;

namespace sch {

constexpr int D = VDIM;
constexpr int S = (VORDER + 1) / 2;
using Spline = typename SplineOf<D, S>::type;
using MatrixType = typename Spline::MatrixType;
using Vec = Eigen::Matrix<double, D, 1>;
using OptD = SplineOptimizer<D, Spline>;
const char* oname() { return SplineOf<D, S>::name(); }

struct Problem {
  std::vector<double> T; MatrixType P; BoundaryConditions<D> bc; double t0 = 0;
  int N() const { return (int)T.size(); }
};
Problem gen_problem(Tape& t, int N) {
  Problem p;
  double sigma = std::exp2(t.sym(8) / 8.0);
  p.T.resize(N);
  for (auto& x : p.T) x = sigma * (8 + t.range(0, 24)) / 16.0;
  p.P.resize(N + 1, D);
  for (int i = 0; i <= N; ++i) for (int d = 0; d < D; ++d) p.P(i, d) = t.sym(320) / 32.0;
  auto fill = [&](Vec& v) { for (int d = 0; d < D; ++d) v(d) = t.sym(48) / 16.0; };
  fill(p.bc.start_velocity); fill(p.bc.start_acceleration); fill(p.bc.start_jerk);
  fill(p.bc.end_velocity); fill(p.bc.end_acceleration); fill(p.bc.end_jerk);
  p.t0 = t.flag() ? 0.0 : t.sym(80) / 8.0;
  return p;
}
struct Costs { TimeCostP tc; WaypointCostP<D> wc; RunningCostP<D> rc; };
Costs gen_costs(Tape& t) {
  Costs c;
  c.tc = gen_time_cost(t); c.wc = gen_waypoint_cost<D>(t); c.rc = gen_running_cost<D>(t, S, 1.0);
  // explicit time dependence is what makes the suffix accumulation over segments matter
  if (c.rc.obs == 0 && c.rc.sn == 0) { c.rc.sn = 0.75; c.rc.omega = 1.25; }
  if (c.rc.lin_t == 0) c.rc.lin_t = 0.5;
  return c;
}
Eigen::VectorXd gen_x(Tape& t, const OptD& opt, int N, int variant = 0) {
  QuadInvTimeMap tm;
  Eigen::VectorXd x0 = opt.generateInitialGuess();
  Eigen::VectorXd x = x0;
  for (int i = 0; i < x.size(); ++i) x(i) += (i < N ? t.sym(8) / 32.0 : t.sym(32) / 32.0) + variant * ((i * 5 + variant) % 7 - 3) / 64.0;
  for (int i = 0; i < N; ++i) { int guard = 0; while (!(tm.toTime(x(i)) >= 0.05) && guard++ < 8) x(i) = 0.5 * (x(i) + x0(i)); if (!(tm.toTime(x(i)) >= 0.05)) x(i) = x0(i); }
  // a fifth of the vectors decode to durations that are nearly, but not bit-, equal (differences 2^-21 ... 2^-44 relative; some
  // exactly equal): anything cached per thread and keyed on "the same duration within a tolerance" depends on the schedule then
  if (N >= 2 && t.chance(1, 5)) {
    double T0 = tm.toTime(x(0));
    int k = t.range(21, 44);
    for (int i = 0; i < N; ++i) x(i) = tm.toTau(T0 * (1.0 + (t.range(0, 5) - 2) * std::ldexp(1.0, -k)));
  }
  return x;
}

struct EvalOut { double cost = 0; Eigen::VectorXd grad; MatrixType coeffs; std::vector<double> T; };
bool same_out(const EvalOut& a, const EvalOut& b) { return same_val(a.cost, b.cost) && vec_same_bits(a.grad, b.grad) && mat_same_bits(a.coeffs, b.coeffs) && a.T == b.T; }
std::string diff_out(const EvalOut& a, const EvalOut& b) {
  std::ostringstream o;
  o << "cost " << g17(a.cost) << " vs " << g17(b.cost);
  for (Eigen::Index i = 0; i < std::min(a.grad.size(), b.grad.size()); ++i) if (!same_val(a.grad(i), b.grad(i))) { o << "; grad[" << i << "] " << g17(a.grad(i)) << " vs " << g17(b.grad(i)); break; }
  if (!mat_same_bits(a.coeffs, b.coeffs)) o << "; workspace spline coefficients differ " << first_diff(a.coeffs, b.coeffs);
  return o.str();
}
template <class Exec>
EvalOut run_eval(const OptD& opt, const Eigen::VectorXd& x, const Costs& c, typename OptD::Workspace& ws, const Exec& ex) {
  EvalOut o;
  o.cost = opt.evaluate(x, o.grad, c.tc, c.wc, c.rc, &ws, ex);
  o.coeffs = ws.spline.getTrajectory().getCoefficients();
  o.T = ws.spline.getTimeSegments();
  return o;
}

#ifndef VRACE
// ===================================================================================== C12 schedules
void c12(Tape& t, Ctx& ctx) {
  int N = t.pickw({1, 3, 3, 3, 3, 2, 1, 1}) + 1;  // 1..8
  Problem p = gen_problem(t, N);
  unsigned flagbits = (unsigned)t.range(0, 255);
  static const int Ks[] = {1, 2, 3, 4, 8, 16};
  int K = Ks[t.range(0, 5)];
  double rho = t.flag() ? 0.0 : 0.25;
  Costs costs = gen_costs(t);
  OptD opt;
  VCHECK(ctx, opt.setInitState(p.T, p.P, p.t0, p.bc), "init-rejected", "valid problem rejected");
  opt.setOptimizationFlags(flags_from_bits(flagbits)); opt.setEnergyWeights(rho); opt.setIntegralNumSteps(K);
  Eigen::VectorXd x = gen_x(t, opt, N);
  std::string who = std::string(oname()) + " dim=" + std::to_string(D) + " N=" + std::to_string(N) + " K=" + std::to_string(K) + " flags=" + flags_str(flagbits);
  if (ctx.want_desc) ctx.desc << "\"order\": \"" << oname() << "\", \"dim\": " << D << ", \"N\": " << N << ", \"K\": " << K << ", \"flags\": \"" << flags_str(flagbits) << "\", \"schedules\": [";
  typename OptD::Workspace w0;
  EvalOut serial = run_eval(opt, x, costs, w0, SerialExecutor());
  // default-argument form = serial
  {
    typename OptD::Workspace w1; EvalOut o; o.cost = opt.evaluate(x, o.grad, costs.tc, costs.wc, costs.rc, &w1);
    o.coeffs = w1.spline.getTrajectory().getCoefficients(); o.T = w1.spline.getTimeSegments();
    VCHECK(ctx, same_out(serial, o), "default-executor", who << ": evaluate without an executor argument differs from SerialExecutor: " << diff_out(serial, o));
  }
  int nsched = 0;
  // every other schedule runs on ONE workspace that the previous schedules already used ("the same calls made one after another" on a
  // caller's workspace): what an earlier evaluation left behind must not show in a later one, whatever the schedule
  typename OptD::Workspace wreuse;
  auto try_schedule = [&](const ScheduleExec& ex, const std::string& name) -> bool {
    typename OptD::Workspace wfresh;
    typename OptD::Workspace& w = (nsched % 2 == 1) ? wreuse : wfresh;
    EvalOut o = run_eval(opt, x, costs, w, ex);
    ++nsched;
    if (!same_out(serial, o)) {
      VFAILNR(ctx, "schedule-dependent", who << ": executor schedule [" << name << "] gives a result that is not bit-identical to serial execution: " << diff_out(serial, o));
      return false;
    }
    return true;
  };
  auto perm_name = [](const std::vector<int>& pm) { std::string s; for (int v : pm) s += std::to_string(v) + " "; return s; };
  if (N <= 5) {  // every permutation of the segment order
    std::vector<int> pm(N); for (int i = 0; i < N; ++i) pm[i] = i;
    do { ScheduleExec ex; ex.perm = pm; if (!try_schedule(ex, "order " + perm_name(pm))) return; } while (std::next_permutation(pm.begin(), pm.end()));
    ctx.label("permutations:all-" + std::to_string(N) + "!");
  } else {
    for (int r = 0; r < 6; ++r) {
      std::vector<int> pm(N); for (int i = 0; i < N; ++i) pm[i] = i;
      for (int i = N - 1; i > 0; --i) std::swap(pm[i], pm[t.range(0, i)]);
      if (r == 0) std::reverse(pm.begin(), pm.end());
      ScheduleExec ex; ex.perm = pm; if (!try_schedule(ex, "order " + perm_name(pm))) return;
    }
    ctx.label("permutations:generated");
  }
  // thread partitions: 1..8 chunks incl. empty and singleton chunks, over a generated order
  for (int r = 0; r < 3; ++r) {
    ScheduleExec ex;
    ex.perm.resize(N); for (int i = 0; i < N; ++i) ex.perm[i] = i;
    if (t.flag()) for (int i = N - 1; i > 0; --i) std::swap(ex.perm[i], ex.perm[t.range(0, i)]);
    int nth = t.range(1, 8);
    for (int k = 1; k < nth; ++k) ex.cuts.push_back(t.range(0, N));
    std::sort(ex.cuts.begin(), ex.cuts.end());
    std::string nm = "threads=" + std::to_string(nth) + " cuts";
    for (int c : ex.cuts) nm += " " + std::to_string(c);
    if (!try_schedule(ex, nm + " order " + perm_name(ex.perm))) return;
    ctx.label("threads:" + std::to_string(nth));
    if (ctx.want_desc) ctx.desc << (r ? "," : "") << "\"" << nm << "\"";
  }
  // the bundled OpenMP executor
#ifdef _OPENMP
  {
    static const int nts[] = {1, 2, 3, 8};
    int nt = nts[t.range(0, 3)];
    omp_set_num_threads(nt);
    typename OptD::Workspace w;
    EvalOut o = run_eval(opt, x, costs, w, OpenMPExecutor());
    VCHECK(ctx, same_out(serial, o), "schedule-dependent", who << ": OpenMPExecutor with " << nt << " threads is not bit-identical to serial execution: " << diff_out(serial, o));
    ctx.label("openmp:" + std::to_string(nt));
    // the same executor used by several OpenMP threads at once (an outer parallel region: the inner team may then get fewer
    // threads than omp_get_max_threads() says), each call with its own workspace
    if (t.flag()) {
      const int m = 2 + t.range(0, 2);
      std::vector<EvalOut> outs((size_t)m);
      std::vector<typename OptD::Workspace> wss((size_t)m);
      std::vector<int> done((size_t)m, 0);
#pragma omp parallel num_threads(m)
      {
        int id = omp_get_thread_num();
        if (id < m) { outs[(size_t)id] = run_eval(opt, x, costs, wss[(size_t)id], OpenMPExecutor()); done[(size_t)id] = 1; }
      }
      for (int i = 0; i < m; ++i)
        if (done[(size_t)i]) VCHECK(ctx, same_out(serial, outs[(size_t)i]), "schedule-dependent", who << ": OpenMPExecutor used from " << m << " OpenMP threads at once (outer parallel region, configured threads " << nt << "): call " << i << " is not bit-identical to serial execution: " << diff_out(serial, outs[(size_t)i]));
      ctx.label("openmp:nested-callers");
    }
  }
#else
  {
    // built without OpenMP the bundled executor falls back to a plain loop: still every segment, still bit-identical to serial
    typename OptD::Workspace w;
    EvalOut o = run_eval(opt, x, costs, w, OpenMPExecutor());
    VCHECK(ctx, same_out(serial, o), "schedule-dependent", who << ": OpenMPExecutor in a build without OpenMP is not bit-identical to serial execution: " << diff_out(serial, o));
    ctx.label("openmp:fallback-build");
  }
#endif
  if (ctx.want_desc) ctx.desc << "], \"schedules_run\": " << nsched;
  ctx.nontrivial = N >= 2;
}

// ===================================================================================== C10o workspace reuse
void c10o(Tape& t, Ctx& ctx) {
  typename OptD::Workspace shared;   // one workspace reused across different optimizers and problems
  OptD longlived;                    // one optimizer re-initialised with new problems; uses its built-in workspace
  int steps = t.rangez(2, 10, 4);
  static const int Ns[] = {1, 2, 3, 4, 6, 8, 5, 2};
  int prevN = -1; bool nt = false;
  if (ctx.want_desc) ctx.desc << "\"order\": \"" << oname() << "\", \"dim\": " << D << ", \"steps\": [";
  for (int s = 0; s < steps; ++s) {
    int N = (prevN > 0 && t.chance(1, 3)) ? prevN : Ns[t.range(0, 7)];
    Problem p = gen_problem(t, N);
    unsigned flagbits = (unsigned)t.range(0, 255);
    int K = 1 + t.range(0, 7);
    double rho = t.flag() ? 0.0 : 0.5;
    Costs costs = gen_costs(t);
    if (ctx.want_desc) ctx.desc << (s ? "," : "") << "{\"N\": " << N << ", \"flags\": \"" << flags_str(flagbits) << "\", \"K\": " << K << "}";
    std::string who = std::string(oname()) + " dim=" + std::to_string(D) + " step " + std::to_string(s) + " N=" + std::to_string(N) + " (previous N=" + std::to_string(prevN) + ") flags=" + flags_str(flagbits);
    // a fresh optimizer evaluated with the shared (reused) workspace vs with a fresh workspace
    OptD opt;
    VCHECK(ctx, opt.setInitState(p.T, p.P, p.t0, p.bc), "init-rejected", "valid problem rejected");
    opt.setOptimizationFlags(flags_from_bits(flagbits)); opt.setEnergyWeights(rho); opt.setIntegralNumSteps(K);
    Eigen::VectorXd x = gen_x(t, opt, N);
    typename OptD::Workspace fresh;
    EvalOut a = run_eval(opt, x, costs, shared, SerialExecutor());
    EvalOut b = run_eval(opt, x, costs, fresh, SerialExecutor());
    VCHECK(ctx, same_out(a, b), "workspace-history", who << ": evaluation through a workspace reused from earlier problems differs from a fresh workspace: " << diff_out(a, b));
    // energy gradients and propagation read from the reused workspace's spline
    VCHECK(ctx, same_val(shared.spline.getEnergy(), fresh.spline.getEnergy()) && vec_same_bits(shared.spline.getEnergyGradTimes(), fresh.spline.getEnergyGradTimes()), "workspace-history", who << ": spline queries on the reused workspace differ from a fresh one");
    // the long-lived optimizer with its built-in workspace, re-initialised for this problem
    VCHECK(ctx, longlived.setInitState(p.T, p.P, p.t0, p.bc), "init-rejected", "valid problem rejected");
    longlived.setOptimizationFlags(flags_from_bits(flagbits)); longlived.setEnergyWeights(rho); longlived.setIntegralNumSteps(K);
    EvalOut c; c.cost = longlived.evaluate(x, c.grad, costs.tc, costs.wc, costs.rc);
    c.coeffs = longlived.getOptimalSpline()->getTrajectory().getCoefficients(); c.T = longlived.getOptimalSpline()->getTimeSegments();
    VCHECK(ctx, same_out(c, b), "optimizer-history", who << ": a re-initialised optimizer with its built-in workspace differs from a fresh optimizer and workspace: " << diff_out(c, b));
    // repeating the evaluation on the reused workspace gives the same answer (evaluation is a read-only query of the optimizer)
    EvalOut a2 = run_eval(opt, x, costs, shared, SerialExecutor());
    VCHECK(ctx, same_out(a, a2), "query-changes-later-result", who << ": repeating the evaluation on the same workspace changes the result");
    if (prevN > 0) nt = true;
    prevN = N;
  }
  if (ctx.want_desc) ctx.desc << "]";
  ctx.nontrivial = nt;
}

Registrar r12({"C12", std::string("executor schedules ") + SplineOf<VDIM, (VORDER + 1) / 2>::name() + " dim=" + std::to_string(VDIM), 600, 0, c12, nullptr});
Registrar r10o({"C10o", std::string("optimizer workspace reuse ") + SplineOf<VDIM, (VORDER + 1) / 2>::name() + " dim=" + std::to_string(VDIM), 2000, 0, c10o, nullptr});

#else  // VRACE
// ===================================================================================== C12 races (ThreadSanitizer build)
void c12r(Tape& t, Ctx& ctx) {
  int N = t.pickw({2, 3, 3, 2, 1}) + 1;  // 1..5
  Problem p = gen_problem(t, N);
  unsigned flagbits = (unsigned)t.range(0, 255);
  if (t.flag()) flagbits |= 0x22u;  // boundary-derivative flags set: per-thread boundary blocks differ
  int K = 1 + t.range(0, 5);
  double rho = t.flag() ? 0.0 : 0.25;
  Costs costs = gen_costs(t);
  int nthreads = t.range(2, 8);
  int prior = t.range(0, 3);        // 0 none, 1 getDimension, 2 generateInitialGuess, 3 evaluate
  int origin = t.range(0, 2);       // 0 freshly configured, 1 a copy of a configured optimizer, 2 re-flagged just before
  bool inner_threads = t.chance(1, 3);
  std::string who = std::string(oname()) + " dim=" + std::to_string(D) + " N=" + std::to_string(N) + " K=" + std::to_string(K) + " flags=" + flags_str(flagbits) + " threads=" + std::to_string(nthreads) +
                    (prior == 0 ? " no prior single-threaded call" : (prior == 1 ? " prior getDimension" : (prior == 2 ? " prior generateInitialGuess" : " prior evaluate"))) +
                    (origin == 0 ? "" : (origin == 1 ? " (copied optimizer)" : " (re-flagged optimizer)"));
  if (ctx.want_desc) ctx.desc << "\"order\": \"" << oname() << "\", \"dim\": " << D << ", \"N\": " << N << ", \"K\": " << K << ", \"flags\": \"" << flags_str(flagbits) << "\", \"threads\": " << nthreads << ", \"prior_call\": " << prior << ", \"origin\": " << origin << ", \"inner_threads\": " << (inner_threads ? "true" : "false");
  ctx.label(prior == 0 ? "prior:none" : "prior:some"); ctx.label("threads:" + std::to_string(nthreads)); ctx.label(origin == 0 ? "origin:fresh" : (origin == 1 ? "origin:copy" : "origin:re-flagged"));
  // a helper optimizer provides decision vectors without touching the optimizer under test
  OptD helper;
  VCHECK(ctx, helper.setInitState(p.T, p.P, p.t0, p.bc), "init-rejected", "valid problem rejected");
  helper.setOptimizationFlags(flags_from_bits(flagbits));
  std::vector<Eigen::VectorXd> xs;
  for (int k = 0; k < nthreads; ++k) xs.push_back(gen_x(t, helper, N, k + 1));
  std::unique_ptr<OptD> base(new OptD());
  base->setInitState(p.T, p.P, p.t0, p.bc);
  if (origin == 2) base->setOptimizationFlags(flags_from_bits(flagbits ^ 0x11u));
  base->setOptimizationFlags(flags_from_bits(flagbits)); base->setEnergyWeights(rho); base->setIntegralNumSteps(K);
  std::unique_ptr<OptD> copy;
  if (origin == 1) copy.reset(new OptD(*base));
  const OptD& opt = origin == 1 ? *copy : *base;
  if (prior == 1) (void)opt.getDimension();
  else if (prior == 2) (void)opt.generateInitialGuess();
  else if (prior == 3) { typename OptD::Workspace w; Eigen::VectorXd g; (void)opt.evaluate(xs[0], g, costs.tc, costs.wc, costs.rc, &w); }
  std::vector<EvalOut> par(nthreads);
  std::vector<std::unique_ptr<typename OptD::Workspace>> wss;
  for (int k = 0; k < nthreads; ++k) wss.emplace_back(new typename OptD::Workspace());
  {
    std::vector<std::thread> th;
    std::atomic<int> go{0};
    for (int k = 0; k < nthreads; ++k)
      th.emplace_back([&, k]() {
        go.fetch_add(1);
        while (go.load() < nthreads) {}  // start together
        if (inner_threads) { ScheduleExec ex; ex.cuts = {N / 2}; par[k] = run_eval(opt, xs[k], costs, *wss[k], ex); }
        else par[k] = run_eval(opt, xs[k], costs, *wss[k], SerialExecutor());
      });
    for (auto& x : th) x.join();
  }
  // the same calls made one after another
  for (int k = 0; k < nthreads; ++k) {
    typename OptD::Workspace w;
    EvalOut seq = run_eval(opt, xs[k], costs, w, SerialExecutor());
    VCHECK(ctx, same_out(par[k], seq), "concurrent-result", who << ": thread " << k << " returned a result that differs from the same call made sequentially: " << diff_out(par[k], seq));
  }
  ctx.nontrivial = prior == 0;
}
Registrar r12r({"C12r", std::string("concurrent evaluation (TSan) ") + SplineOf<VDIM, (VORDER + 1) / 2>::name() + " dim=" + std::to_string(VDIM), 400, 0, c12r, nullptr});
#endif

}  // namespace sch
