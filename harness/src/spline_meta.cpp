// spline_meta.cpp - relations between runs of the spline construction, one binary per spatial dimension (-DVDIM):
//   C10 results depend only on the latest inputs (reused object vs fresh object, bitwise; read-only queries do not change later answers)
//   C13 spatial dimensions are solved independently (D-dimensional spline vs D one-dimensional splines; coordinate permutation)
//   C14 time shift, translation, scaling, duration scaling, time reversal
#include <algorithm>
#include <numeric>
#include "spline_gen.hpp"

#ifndef VDIM
#define VDIM 3
#endif

using namespace vf;
using namespace SplineTrajectory;

namespace meta {

constexpr int D = VDIM;
inline ld tau_fwd(int S) { return S == 2 ? 1e-10L : (S == 3 ? 1e-8L : 1e-7L); }
inline ld tau_zero(int S) { return S == 2 ? 1e-12L : (S == 3 ? 1e-11L : 1e-10L); }
const ld TAU_ADJ = 1e-7L;

template <int DIM, int S, class G>
bool grads_same_bits(const G& a, const G& b) {
  if (!mat_same_bits(a.inner_points, b.inner_points) || !vec_same_bits(a.times, b.times)) return false;
  if (!vec_same_bits(a.start.p, b.start.p) || !vec_same_bits(a.end.p, b.end.p) || !vec_same_bits(a.start.v, b.start.v) || !vec_same_bits(a.end.v, b.end.v)) return false;
  if constexpr (S >= 3) if (!vec_same_bits(a.start.a, b.start.a) || !vec_same_bits(a.end.a, b.end.a)) return false;
  if constexpr (S >= 4) if (!vec_same_bits(a.start.j, b.start.j) || !vec_same_bits(a.end.j, b.end.j)) return false;
  return true;
}

template <int S, class G> bool gsame(const G& a, const G& b) { return grads_same_bits<D, S>(a, b); }

// flatten a Gradients structure: kinds 0 = points (rows 0..N), 1..3 = start v,a,j, 4..6 = end v,a,j ; plus times
template <int DIM, int S, class G>
void flatten(const G& g, int N, MatL& pts, MatL& bnd, VecL& times) {
  pts = MatL::Zero(N + 1, DIM); bnd = MatL::Zero(6, DIM); times.resize(N);
  for (int i = 0; i < N; ++i) times(i) = g.times(i);
  for (int d = 0; d < DIM; ++d) {
    pts(0, d) = g.start.p(d); pts(N, d) = g.end.p(d);
    for (int i = 1; i < N; ++i) pts(i, d) = g.inner_points(i - 1, d);
    bnd(0, d) = g.start.v(d); bnd(3, d) = g.end.v(d);
    if constexpr (S >= 3) { bnd(1, d) = g.start.a(d); bnd(4, d) = g.end.a(d); }
    if constexpr (S >= 4) { bnd(2, d) = g.start.j(d); bnd(5, d) = g.end.j(d); }
  }
}

// natural magnitudes of gradient entries for an upstream gradient gC (see ref_spline.hpp Adjoint::theta_nat)
template <class CoefMat, class GMat>
void nat_scales(const CoefMat& C, const std::vector<double>& T, const GMat& gC, int S, int dim, std::vector<ld>& natP, ld& natT) {
  int nc = 2 * S, N = (int)T.size();
  ld Tmin = T[0]; for (double x : T) Tmin = std::min<ld>(Tmin, x);
  natP.assign(dim, 0); natT = 0;
  for (int d = 0; d < dim; ++d) {
    ld dataM = 0;
    for (int i = 0; i < N; ++i) for (int k = 0; k < nc; ++k) dataM = std::max(dataM, fabsl((ld)C(i * nc + k, d)) * RefSpline::ipow(T[i], k));
    for (int i = 0; i < N; ++i)
      for (int k = 0; k < nc; ++k) {
        ld g = fabsl((ld)gC(i * nc + k, d));
        natP[d] += g / RefSpline::ipow(Tmin, k);
        natT += g * std::max(fabsl((ld)C(i * nc + k, d)), dataM / RefSpline::ipow(T[i], k)) / Tmin;
      }
  }
}

template <class MatrixType>
void gen_upstream(Tape& t, int N, int nc, int dim, MatrixType& gC, Eigen::VectorXd& gT) {
  gC = MatrixType::Zero(nc * N, dim);
  gT = Eigen::VectorXd::Zero(N);
  int cls = t.range(0, 2);
  for (int r = 0; r < nc * N; ++r) {
    if (cls == 1 && (r % nc) >= nc / 2) continue;      // low rows only
    if (cls == 2 && t.chance(3, 4)) continue;           // sparse
    uint32_t w = t.raw();
    for (int d = 0; d < dim; ++d) gC(r, d) = coef_from_word(d == 0 ? w : (w == 0 ? 0u : mix32(w + 0x9e3779b9u * (uint32_t)d)));
  }
  for (int i = 0; i < N; ++i) gT(i) = t.sym(640) / 64.0;
}

// ===================================================================================== C10
template <int S>
void c10_case(Tape& t, Ctx& ctx) {
  using Spline = typename SplineOf<D, S>::type;
  using MatrixType = typename Spline::MatrixType;
  using Grads = typename Spline::Gradients;
  constexpr int nc = 2 * S;
  ctx.label(std::string("order:") + SplineOf<D, S>::name());
  if (ctx.want_desc) ctx.desc << "\"order\": \"" << SplineOf<D, S>::name() << "\", \"dim\": " << D << ", \"ops\": [";
  std::unique_ptr<Spline> obj;       // the long-lived object
  std::unique_ptr<Spline> fresh;     // rebuilt after every update from the same latest inputs
  SplineCase<D> cur;
  bool have = false;
  bool cur_by_points = false;
  int prevN = 0;
  bool shrunk = false, propagated_since_update = false, nt = false;
  int nops = t.rangez(2, 24, 8);
  static const int Ns[] = {1, 2, 3, 4, 8, 16, 5, 12};
  for (int op = 0; op < nops && !ctx.failed; ++op) {
    int kind = have ? t.pickw({5, 2, 2, 3, 3, 2, 2}) : 0;
    const char* oname = "";
    if (kind == 0) {  // update (either overload) with a new problem
      SplineCase<D> c;
      c.s = S; c.N = Ns[t.range(0, 7)];
      if (have && t.chance(1, 4)) c.N = cur.N;  // same size, new values
      gen_durations(t, c.N, wellscaled_ratio(S), c.T, &c.sigma, &c.ratio, &c.dur_shape, &c.shape);
      c.t0 = gen_start_time(t);
      gen_data(t, c);
      if (have && t.chance(1, 8)) c = cur;        // update with inputs identical to the previous update (possibly through the other overload)
      else if (have && t.chance(1, 8)) { c = cur; c.t0 = gen_start_time(t); }  // identical except the start time
      bool one_changed = false;
      if (have && t.chance(1, 6)) {
        // identical to the previous update except ONE ingredient (boundary argument / waypoints / durations), bit-equal otherwise
        SplineCase<D> nw = c; nw.N = cur.N;
        if (nw.T.size() != cur.T.size()) { nw.s = S; gen_durations(t, nw.N, wellscaled_ratio(S), nw.T, &nw.sigma, &nw.ratio, &nw.dur_shape, &nw.shape); gen_data(t, nw); }
        c = cur;
        int ing = t.range(0, 4);
        if (ing == 3 && cur.N >= 2) {   // truncated: the last one or two segments dropped, everything kept is bit-equal
          int drop = (cur.N >= 3 && t.flag()) ? 2 : 1;
          c.N = cur.N - drop; c.T.resize(c.N); c.P.conservativeResize(c.N + 1, D);
        } else if (ing == 4) c = extend_case(t, cur, 1 + t.range(0, 1));   // extended by one or two segments
        else switch (ing % 3) {
          case 0: c.bc = nw.bc; if (t.chance(1, 3)) { c.bc = cur.bc; c.bc_field(t.flag(), t.range(1, 3))(t.range(0, D - 1)) += 0.5 / std::max(cur.sigma, 1e-3); } break;
          case 1: c.P = nw.P; if (t.chance(1, 3)) { c.P = cur.P; c.P(t.range(0, cur.N), t.range(0, D - 1)) += 0.25; } break;
          default: { c.T = nw.T; c.sigma = nw.sigma; c.ratio = nw.ratio; c.dur_shape = nw.dur_shape; c.shape = nw.shape;
                     if (t.chance(1, 2) && cur.N >= 2) { c.T = cur.T; std::rotate(c.T.begin(), c.T.begin() + 1, c.T.end()); c.sigma = cur.sigma; c.ratio = cur.ratio; c.dur_shape = cur.dur_shape; c.shape = cur.shape; } } break;
        }
        double M = 0; for (int i = 0; i <= c.N; ++i) for (int d = 0; d < D; ++d) M = std::max(M, std::fabs(c.P(i, d)));
        c.M = std::max(M, 1e-300);
        one_changed = true;
        ctx.label("update:one-ingredient-changed");
      }
      bool by_points = t.flag();
      if (one_changed && t.chance(3, 4)) by_points = cur_by_points;  // same overload: the unchanged ingredients arrive bit-equal
      std::vector<double> tp = c.time_points();
      // 1/6 of the updates omit the boundary argument: it defaults to zero boundary derivatives, whatever the object held before
      bool omit_bc = t.chance(1, 6);
      if (omit_bc) c.bc = BoundaryConditions<D>();
      if (!have) { obj.reset(t.flag() ? new Spline() : (by_points ? new Spline(tp, c.P, c.bc) : new Spline(c.T, c.P, c.t0, c.bc))); }
      if (omit_bc) { if (by_points) obj->update(tp, c.P); else obj->update(c.T, c.P, c.t0); }
      else if (by_points) obj->update(tp, c.P, c.bc); else obj->update(c.T, c.P, c.t0, c.bc);
      fresh.reset(by_points ? new Spline(tp, c.P, c.bc) : new Spline(c.T, c.P, c.t0, c.bc));
      if (have && c.N < cur.N) shrunk = true;
      if (have && propagated_since_update) nt = true;  // a propagate between two updates
      propagated_since_update = false;
      prevN = std::max(prevN, c.N); cur = c; have = true; cur_by_points = by_points;
      oname = by_points ? "update(points)" : "update(durations)";
      if (ctx.want_desc) ctx.desc << (op ? "," : "") << "\"" << oname << " N=" << c.N << "\"";
    } else {
      const int N = cur.N;
      switch (kind) {
        case 1: {  // coefficients, knot times, bookkeeping
          oname = "coefficients";
          const auto& A = obj->getTrajectory().getCoefficients(); const auto& B = fresh->getTrajectory().getCoefficients();
          VCHECK(ctx, mat_same_bits(A, B), "reused-differs",
                 SplineOf<D, S>::name() << " dim=" << D << ": coefficients of the reused object differ from a fresh object built from the same inputs after op " << op << " (N=" << N << "): " << first_diff(A, B));
          VCHECK(ctx, obj->getCumulativeTimes() == fresh->getCumulativeTimes() && obj->getTimeSegments() == fresh->getTimeSegments() && obj->getStartTime() == fresh->getStartTime() &&
                          obj->getEndTime() == fresh->getEndTime() && same_val(obj->getDuration(), fresh->getDuration()) && obj->getNumSegments() == fresh->getNumSegments() &&
                          obj->getNumPoints() == fresh->getNumPoints() && mat_same_bits(obj->getSpacePoints(), fresh->getSpacePoints()) &&
                          obj->getTrajectory().getBreakpoints() == fresh->getTrajectory().getBreakpoints() && obj->getTrajectory().getNumSegments() == N,
                 "reused-differs", SplineOf<D, S>::name() << ": knot times / bookkeeping of the reused object differ from a fresh object (N=" << N << ")");
          break;
        }
        case 2: {  // energy (twice: read-only queries repeat bitwise)
          oname = "energy";
          double e1 = obj->getEnergy(), e2 = obj->getEnergy(), ef = fresh->getEnergy();
          VCHECK(ctx, same_val(e1, ef) && same_val(e1, e2), "reused-differs", SplineOf<D, S>::name() << " dim=" << D << ": getEnergy() of the reused object " << g17(e1) << "/" << g17(e2) << " vs fresh " << g17(ef) << " (N=" << N << ")");
          break;
        }
        case 3: {  // energy gradients (all getters)
          oname = "energy-gradients";
          Grads a = obj->getEnergyGrad(), b = fresh->getEnergyGrad(), a2; obj->getEnergyGrad(a2);
          VCHECK(ctx, gsame<S>(a, b) && gsame<S>(a, a2), "reused-differs", SplineOf<D, S>::name() << " dim=" << D << ": getEnergyGrad() of the reused object differs from a fresh object (N=" << N << ")");
          VCHECK(ctx, mat_same_bits(obj->getEnergyPartialGradByCoeffs(), fresh->getEnergyPartialGradByCoeffs()) && vec_same_bits(obj->getEnergyPartialGradByTimes(), fresh->getEnergyPartialGradByTimes()) &&
                          vec_same_bits(obj->getEnergyGradTimes(), fresh->getEnergyGradTimes()) && mat_same_bits(obj->getEnergyGradInnerPoints(), fresh->getEnergyGradInnerPoints()),
                 "reused-differs", SplineOf<D, S>::name() << ": energy partial/total gradients of the reused object differ from a fresh object (N=" << N << ")");
          break;
        }
        case 4: {  // propagation, both overloads; the fresh object gets the same call (it is itself then a reused object - that is the point)
          oname = "propagate";
          MatrixType gC; Eigen::VectorXd gT;
          gen_upstream(t, N, nc, D, gC, gT);
          Grads a = obj->propagateGrad(gC, gT);
          Grads b; Spline f2 = (t.flag() ? (cur_by_points ? Spline(cur.time_points(), cur.P, cur.bc) : Spline(cur.T, cur.P, cur.t0, cur.bc)) : *fresh);
          f2.propagateGrad(gC, gT, b);
          VCHECK(ctx, gsame<S>(a, b), "reused-differs",
                 SplineOf<D, S>::name() << " dim=" << D << ": propagateGrad on the reused object differs from a fresh object (N=" << N << ", op " << op << ", object previously held N up to " << prevN << ")");
          Grads a3 = obj->propagateGrad(gC, gT);
          VCHECK(ctx, gsame<S>(a, a3), "query-changes-later-result", SplineOf<D, S>::name() << ": repeating propagateGrad with the same input gives a different answer");
          propagated_since_update = true;
          if (shrunk) nt = true;
          break;
        }
        case 5: {  // evaluation at generated times/orders, incl. sweeps that arrive exactly on a knot from the piece to its left
          oname = "evaluate";
          const auto& bk = obj->getTrajectory().getBreakpoints();
          for (int q = 0; q < 4; ++q) {
            double a0 = obj->getStartTime(), a1 = obj->getEndTime();
            double tq = a0 + (a1 - a0) * t.range(0, 64) / 64.0;
            if (q >= 1 && t.flag()) {  // a knot, preceded (q-1) by whatever was evaluated before: forward / backward sampling patterns
              int j = t.range(0, N);
              tq = bk[j];
              if (q == 1 && j >= 1) (void)obj->getTrajectory().evaluate(0.5 * (bk[j - 1] + bk[j]), t.range(0, nc));  // previous query in the piece to the left
            }
            int k = t.range(0, nc);
            auto v1 = obj->getTrajectory().evaluate(tq, k), v2 = fresh->getTrajectory().evaluate(tq, k);
            VCHECK(ctx, vec_same_bits(v1, v2), "reused-differs", SplineOf<D, S>::name() << " dim=" << D << ": evaluate(t=" << hexd(tq) << ", k=" << k << ") on the reused object differs from a fresh object (N=" << N << ")");
            // read-only queries never change a later answer: an object without ANY query history must agree too
            Spline nohist = cur_by_points ? Spline(cur.time_points(), cur.P, cur.bc) : Spline(cur.T, cur.P, cur.t0, cur.bc);
            auto v3 = nohist.getTrajectory().evaluate(tq, k);
            VCHECK(ctx, vec_same_bits(v1, v3), "query-changes-later-result",
                   SplineOf<D, S>::name() << " dim=" << D << ": evaluate(t=" << hexd(tq) << ", k=" << k << ") depends on the evaluations made before it: " << g17(v1(0)) << " vs " << g17(v3(0)) << " on an object with no query history (N=" << N << ")");
          }
          break;
        }
        default: {  // a copy of the trajectory and the by-reference trajectory agree
          oname = "trajectory-copy";
          auto cp = obj->getTrajectoryCopy();
          VCHECK(ctx, mat_same_bits(cp.getCoefficients(), fresh->getTrajectory().getCoefficients()) && cp.getBreakpoints() == fresh->getTrajectory().getBreakpoints(), "reused-differs",
                 SplineOf<D, S>::name() << ": getTrajectoryCopy() of the reused object differs from a fresh object");
          break;
        }
      }
      if (shrunk && kind >= 1 && kind <= 5) nt = true;
      if (ctx.want_desc) ctx.desc << (op ? "," : "") << "\"" << oname << "\"";
    }
    ctx.label(std::string("op:") + oname);
  }
  if (ctx.want_desc) ctx.desc << "]";
  if (shrunk) ctx.label("history:shrink");
  ctx.nontrivial = nt;
}

// ===================================================================================== C13
template <int S>
void c13_case(Tape& t, Ctx& ctx) {
  if constexpr (D == 1) { ctx.label("dim1-trivial"); return; } else {
  using Spline = typename SplineOf<D, S>::type;
  using Spline1 = typename SplineOf<1, S>::type;
  using MatrixType = typename Spline::MatrixType;
  using Grads = typename Spline::Gradients;
  using Grads1 = typename Spline1::Gradients;
  constexpr int nc = 2 * S;
  SplineCase<D> c = gen_spline_case<D>(t, S, wellscaled_ratio(S), 10, 16);
  const int N = c.N;
  if (t.chance(1, 8) && D >= 2) {  // replicated column (trivial class, counted)
    for (int i = 0; i <= N; ++i) c.P(i, 1) = c.P(i, 0);
    ctx.label("replicated-column");
  } else ctx.nontrivial = true;
  bool by_points = t.flag();
  std::vector<double> tp = c.time_points();
  Spline sp = build_spline_hist<D, S>(t, ctx, c, by_points);
  const auto& C = sp.getTrajectory().getCoefficients();
  ctx.label(std::string("order:") + SplineOf<D, S>::name());
  if (S == 4) ctx.label(D <= 3 ? "septic:D<=3" : "septic:D>3");
  if (ctx.want_desc) ctx.desc << c.describe();
  std::string who = std::string(SplineOf<D, S>::name()) + " D=" + std::to_string(D) + " N=" + std::to_string(N);
  // upstream gradient for propagation
  MatrixType gC; Eigen::VectorXd gT;
  gen_upstream(t, N, nc, D, gC, gT);
  Grads gD = sp.propagateGrad(gC, gT);
  Grads eD = sp.getEnergyGrad();
  double ED = sp.getEnergy();
  MatL ptsD, bndD, eptsD, ebndD; VecL tmD, etmD;
  flatten<D, S>(gD, N, ptsD, bndD, tmD);
  flatten<D, S>(eD, N, eptsD, ebndD, etmD);
  std::vector<ld> natP; ld natT;
  nat_scales(C, sp.getTimeSegments(), gC, S, D, natP, natT);
  MatrixType eC = sp.getEnergyPartialGradByCoeffs();
  std::vector<ld> enatP; ld enatT;
  nat_scales(C, sp.getTimeSegments(), eC, S, D, enatP, enatT);
  { std::vector<ld> dn; ld dt_; energy_nat(c, dn, dt_); for (int d = 0; d < D; ++d) enatP[d] += dn[d]; enatT += dt_; }  // energy at rounding level: data-based floor
  ld sumE = 0, sum_t_abs = 0, esum_t_abs = 0;
  VecL sum_times = VecL::Zero(N), esum_times = VecL::Zero(N);
  int bitwise_cols = 0;
  for (int d = 0; d < D; ++d) {
    typename Spline1::MatrixType P1(N + 1, 1), g1(nc * N, 1);
    for (int i = 0; i <= N; ++i) P1(i, 0) = c.P(i, d);
    for (int r = 0; r < nc * N; ++r) g1(r, 0) = gC(r, d);
    BoundaryConditions<1> b1;
    b1.start_velocity(0) = c.bc.start_velocity(d); b1.start_acceleration(0) = c.bc.start_acceleration(d); b1.start_jerk(0) = c.bc.start_jerk(d);
    b1.end_velocity(0) = c.bc.end_velocity(d); b1.end_acceleration(0) = c.bc.end_acceleration(d); b1.end_jerk(0) = c.bc.end_jerk(d);
    Spline1 s1 = by_points ? Spline1(tp, P1, b1) : Spline1(c.T, P1, c.t0, b1);
    const auto& C1 = s1.getTrajectory().getCoefficients();
    // coefficients
    bool bw = true;
    ld Md = 0; for (int i = 0; i <= N; ++i) Md = std::max(Md, fabsl((ld)c.P(i, d)));
    for (int i = 0; i < N; ++i) {
      ld sc = Md;
      for (int k = 0; k < nc; ++k) sc = std::max(sc, fabsl((ld)C1(i * nc + k, 0)) * RefSpline::ipow(c.T[i], k));
      for (int k = 0; k < nc; ++k) {
        if (!same_val(C(i * nc + k, d), C1(i * nc + k, 0))) bw = false;
        ld e = fabsl((ld)C(i * nc + k, d) - (ld)C1(i * nc + k, 0)) * RefSpline::ipow(c.T[i], k);
        if (sc > 0) ctx.maxi("coef_vs_1d_" + std::string(SplineOf<D, S>::name()), (double)(e / sc));
        VCHECK(ctx, e <= tau_fwd(S) * sc, "coefficients-vs-1d", who << ": coefficient (segment " << i << ", power " << k << ") of coordinate " << d << " is " << g17(C(i * nc + k, d)) << " but the one-dimensional spline of that coordinate gives " << g17(C1(i * nc + k, 0)));
      }
    }
    if (bw) ++bitwise_cols;
    // evaluations
    for (int q = 0; q < 2; ++q) {
      double tq = sp.getStartTime() + (sp.getEndTime() - sp.getStartTime()) * t.range(0, 64) / 64.0;
      int k = t.range(0, nc - 1);
      double vD = sp.getTrajectory().evaluate(tq, k)(d), v1 = s1.getTrajectory().evaluate(tq, k)(0);
      int sg = 0; const auto& bk = sp.getTrajectory().getBreakpoints(); while (sg + 1 < N && tq >= bk[sg + 1]) ++sg;
      ld sc = seg_abs_scale(C1, sg, nc, 0, (ld)(tq - bk[sg]), k) + std::max(Md, c.data_mag(d, S)) / RefSpline::ipow(c.T[sg], k);
      if (sc > 0) ctx.maxi("eval_vs_1d_" + std::string(SplineOf<D, S>::name()), (double)(fabsl((ld)vD - (ld)v1) / sc));
      VCHECK(ctx, fabsl((ld)vD - (ld)v1) <= tau_fwd(S) * sc, "evaluation-vs-1d", who << ": evaluate(t=" << g17(tq) << ", k=" << k << ") coordinate " << d << " = " << g17(vD) << " vs one-dimensional spline " << g17(v1));
    }
    // propagated gradients (scalar run with zero incoming time gradient)
    Eigen::VectorXd z = Eigen::VectorXd::Zero(N);
    Grads1 g1d = s1.propagateGrad(g1, z);
    Grads1 e1d = s1.getEnergyGrad();
    MatL p1, b1m, ep1, eb1; VecL t1, et1;
    flatten<1, S>(g1d, N, p1, b1m, t1);
    flatten<1, S>(e1d, N, ep1, eb1, et1);
    auto cmp_kind = [&](const MatL& A, const MatL& B, int rows, ld nat, const char* kind, const char* what2) -> bool {
      ld sc = 0;
      for (int r = 0; r < rows; ++r) sc = std::max(sc, std::max(fabsl(A(r, d)), fabsl(B(r, 0))));
      for (int r = 0; r < rows; ++r) {
        ld e = fabsl(A(r, d) - B(r, 0));
        if (sc > 0 && e > tau_zero(S) * nat) ctx.maxi("grad_vs_1d_" + std::string(SplineOf<D, S>::name()), (double)((e - tau_zero(S) * nat) / sc));
        if (!(e <= TAU_ADJ * sc + tau_zero(S) * nat + 1e-280L)) {
          VFAILNR(ctx, "gradient-vs-1d", who << ": " << what2 << " " << kind << "[" << r << "] coordinate " << d << " is " << lg(A(r, d)) << " but the one-dimensional spline of that coordinate gives " << lg(B(r, 0)));
          return false;
        }
      }
      return true;
    };
    if (!cmp_kind(ptsD, p1, N + 1, natP[d], "point gradient", "propagateGrad")) return;
    ld Tmax = *std::max_element(c.T.begin(), c.T.end());
    for (int m = 0; m < 3; ++m) {
      MatL a(2, D), b(2, 1); a.row(0) = bndD.row(m); a.row(1) = bndD.row(3 + m); b(0, 0) = b1m(m, 0); b(1, 0) = b1m(3 + m, 0);
      if (!cmp_kind(a, b, 2, natP[d] * RefSpline::ipow(Tmax, m + 1), "boundary gradient", "propagateGrad")) return;
      MatL ea(2, D), eb(2, 1); ea.row(0) = ebndD.row(m); ea.row(1) = ebndD.row(3 + m); eb(0, 0) = eb1(m, 0); eb(1, 0) = eb1(3 + m, 0);
      if (!cmp_kind(ea, eb, 2, enatP[d] * RefSpline::ipow(Tmax, m + 1), "boundary gradient", "getEnergyGrad")) return;
    }
    if (!cmp_kind(eptsD, ep1, N + 1, enatP[d], "point gradient", "getEnergyGrad")) return;
    for (int i = 0; i < N; ++i) { sum_times(i) += t1(i); sum_t_abs = std::max(sum_t_abs, fabsl(t1(i))); esum_times(i) += et1(i); esum_t_abs = std::max(esum_t_abs, fabsl(et1(i))); }
    sumE += s1.getEnergy();
  }
  ctx.label("bitwise-columns:" + std::to_string(bitwise_cols == D ? 1 : 0));
  // reductions over coordinates
  ld Efloor13;
  { std::vector<ld> dn; ld dt_; energy_nat(c, dn, dt_); Efloor13 = 1e-12L * dt_ * (ld)*std::min_element(c.T.begin(), c.T.end()); }   // see C14: rounding noise of an energy is of the natural size, not of its own value
  VCHECK(ctx, fabsl((ld)ED - sumE) <= 1e-9L * sumE + Efloor13 + 1e-280L, "energy-sum", who << ": energy " << g17(ED) << " is not the sum over coordinates " << lg(sumE));
  for (int i = 0; i < N; ++i) {
    // the library returns incoming + propagated in double: subtracting the incoming gradient again leaves its rounding, eps*|incoming|
    VCHECK(ctx, fabsl((tmD(i) - (ld)gT(i)) - sum_times(i)) <= TAU_ADJ * D * sum_t_abs + tau_zero(S) * natT + 2 * (ld)DBL_EPSILON * fabsl((ld)gT(i)) + 1e-280L, "times-gradient-sum",
           who << ": propagated duration gradient " << i << " minus the incoming one is " << lg(tmD(i) - (ld)gT(i)) << " but the sum over the one-dimensional splines is " << lg(sum_times(i)));
    VCHECK(ctx, fabsl(etmD(i) - esum_times(i)) <= TAU_ADJ * D * esum_t_abs + tau_zero(S) * enatT + 1e-280L, "times-gradient-sum",
           who << ": energy duration gradient " << i << " is " << lg(etmD(i)) << " but the sum over the one-dimensional splines is " << lg(esum_times(i)));
  }
  // ---- coordinate permutation
  {
    int perm[D]; for (int d = 0; d < D; ++d) perm[d] = d;
    for (int d = D - 1; d > 0; --d) { int j = t.range(0, d); std::swap(perm[d], perm[j]); }
    bool ident = true; for (int d = 0; d < D; ++d) if (perm[d] != d) ident = false;
    if (ident) { std::swap(perm[0], perm[D - 1]); }
    SplineCase<D> cp = c;
    MatrixType gCp = gC;
    for (int d = 0; d < D; ++d) {
      for (int i = 0; i <= N; ++i) cp.P(i, d) = c.P(i, perm[d]);
      for (int m = 1; m <= 3; ++m) { cp.bc_field(false, m)(d) = c.bc_field(false, m)(perm[d]); cp.bc_field(true, m)(d) = c.bc_field(true, m)(perm[d]); }
      for (int r = 0; r < nc * N; ++r) gCp(r, d) = gC(r, perm[d]);
    }
    Spline spp = by_points ? Spline(tp, cp.P, cp.bc) : Spline(cp.T, cp.P, cp.t0, cp.bc);
    const auto& Cp = spp.getTrajectory().getCoefficients();
    Grads gp = spp.propagateGrad(gCp, gT);
    MatL pp, bp; VecL tpv;
    flatten<D, S>(gp, N, pp, bp, tpv);
    bool all_bw = true;
    for (int d = 0; d < D; ++d) {
      ld Md = 0; for (int i = 0; i <= N; ++i) Md = std::max(Md, fabsl((ld)cp.P(i, d)));
      for (int i = 0; i < N; ++i) {
        ld sc = Md; for (int k = 0; k < nc; ++k) sc = std::max(sc, fabsl((ld)Cp(i * nc + k, d)) * RefSpline::ipow(c.T[i], k));
        for (int k = 0; k < nc; ++k) {
          if (!same_val(Cp(i * nc + k, d), C(i * nc + k, perm[d]))) all_bw = false;
          VCHECK(ctx, fabsl((ld)Cp(i * nc + k, d) - (ld)C(i * nc + k, perm[d])) * RefSpline::ipow(c.T[i], k) <= tau_fwd(S) * sc, "permutation",
                 who << ": permuting the coordinates does not permute the coefficients (segment " << i << ", power " << k << ", coordinate " << d << " <- " << perm[d] << ")");
        }
      }
      ld sc = 0; for (int r = 0; r <= N; ++r) sc = std::max(sc, std::max(fabsl(pp(r, d)), fabsl(ptsD(r, perm[d]))));
      for (int r = 0; r <= N; ++r)
        VCHECK(ctx, fabsl(pp(r, d) - ptsD(r, perm[d])) <= TAU_ADJ * sc + tau_zero(S) * natP[perm[d]] + 1e-280L, "permutation", who << ": permuting the coordinates does not permute the propagated point gradients (row " << r << ", coordinate " << d << " <- " << perm[d] << ")");
      ld Tmax = *std::max_element(c.T.begin(), c.T.end());
      for (int m = 0; m < 6; ++m) {
        ld sb = std::max(fabsl(bp(m, d)), fabsl(bndD(m, perm[d])));
        VCHECK(ctx, fabsl(bp(m, d) - bndD(m, perm[d])) <= TAU_ADJ * sb + tau_zero(S) * natP[perm[d]] * RefSpline::ipow(Tmax, m % 3 + 1) + 1e-280L, "permutation",
               who << ": permuting the coordinates does not permute the propagated boundary gradients (kind " << m << ", coordinate " << d << " <- " << perm[d] << ")");
      }
    }
    ld st = 0; for (int i = 0; i < N; ++i) st = std::max(st, fabsl(tmD(i)));
    for (int i = 0; i < N; ++i)
      VCHECK(ctx, fabsl(tpv(i) - tmD(i)) <= TAU_ADJ * D * std::max(st, sum_t_abs) + tau_zero(S) * natT + 1e-280L, "permutation", who << ": propagated duration gradient changes under a coordinate permutation (" << lg(tpv(i)) << " vs " << lg(tmD(i)) << ")");
    VCHECK(ctx, fabsl((ld)spp.getEnergy() - (ld)ED) <= 1e-9L * fabsl((ld)ED) + Efloor13 + 1e-280L, "permutation", who << ": energy changes under a coordinate permutation");
    ctx.label(all_bw ? "permutation:bitwise" : "permutation:within-tol");
  }
  // ---- the D-dimensional object's answers do not depend on the other spline objects that were built and queried in between
  {
    Grads gD2 = sp.propagateGrad(gC, gT);
    Grads eD2 = sp.getEnergyGrad();
    VCHECK(ctx, gsame<S>(gD, gD2) && gsame<S>(eD, eD2), "other-objects-interfere", who << ": propagateGrad / getEnergyGrad of the D-dimensional spline give a different answer after other spline objects (" << D << " one-dimensional ones and a D-dimensional twin with permuted coordinates) were built and queried");
  }
  }
}

// ===================================================================================== C14
template <int S>
void c14_case(Tape& t, Ctx& ctx) {
  using Spline = typename SplineOf<D, S>::type;
  using MatrixType = typename Spline::MatrixType;
  using Grads = typename Spline::Gradients;
  constexpr int nc = 2 * S;
  SplineCase<D> c = gen_spline_case<D>(t, S, wellscaled_ratio(S), 10, 16, false);
  const int N = c.N;
  Spline sp = build_spline_hist<D, S>(t, ctx, c);
  const MatrixType C = sp.getTrajectory().getCoefficients();
  const double E = sp.getEnergy();
  const Grads G = sp.getEnergyGrad();
  MatL pts, bnd; VecL tms;
  flatten<D, S>(G, N, pts, bnd, tms);
  MatrixType eC = sp.getEnergyPartialGradByCoeffs();
  std::vector<ld> natP; ld natT;
  nat_scales(C, c.T, eC, S, D, natP, natT);
  { std::vector<ld> dn; ld dt_; energy_nat(c, dn, dt_); for (int d = 0; d < D; ++d) natP[d] += dn[d]; natT += dt_; }  // energy at rounding level: data-based floor
  ld natPmax = 0; for (auto x : natP) natPmax = std::max(natPmax, x);
  ld Tmax = *std::max_element(c.T.begin(), c.T.end());
  // an energy is a cancelling sum of terms of the natural size (data magnitude)^2 / T^(2s-1): two library energies of (nearly)
  // straight-line data agree only to rounding noise of THAT size, not relative to their own (vanishing) value
  ld Efloor;
  { std::vector<ld> dn; ld dt_; energy_nat(c, dn, dt_); Efloor = 1e-12L * dt_ * (ld)*std::min_element(c.T.begin(), c.T.end()); }
  ctx.label(std::string("order:") + SplineOf<D, S>::name());
  std::string who = std::string(SplineOf<D, S>::name()) + " dim=" + std::to_string(D) + " N=" + std::to_string(N);
  int rel = t.range(0, 5);
  static const char* rnames[] = {"time-shift", "translation", "data-scaling", "duration-scaling", "time-reversal", "time-reversal"};
  ctx.label(std::string("relation:") + rnames[rel]);
  if (ctx.want_desc) ctx.desc << c.describe() << ", \"relation\": \"" << rnames[rel] << "\"";
  bool nonzero_bd = false;
  for (int m = 1; m < S; ++m) for (int d = 0; d < D; ++d) if (c.bc_field(false, m)(d) != 0 || c.bc_field(true, m)(d) != 0) nonzero_bd = true;
  ctx.nontrivial = nonzero_bd;
  auto scale_grads = [&](Grads g, double fp, double ft) {  // expected gradients under exact power-of-two scalings: point/boundary parts x fp(kind), times x ft
    (void)fp; (void)ft; return g;
  };
  (void)scale_grads;
  switch (rel) {
    case 0: {  // shifting the start time shifts the knot times and leaves the per-segment polynomials unchanged
      double delta = t.flag() ? t.sym(8000) / 8.0 : 1e3 * t.sym(1000);
      Spline s2(c.T, c.P, c.t0 + delta, c.bc);
      VCHECK(ctx, mat_same_bits(s2.getTrajectory().getCoefficients(), C), "shift-coefficients", who << ": shifting the start time by " << g17(delta) << " changes the per-segment polynomials: " << first_diff(s2.getTrajectory().getCoefficients(), C));
      double U = ulp_of(std::max(std::fabs(c.t0 + delta) + (double)(Tmax * N), std::fabs(c.t0) + (double)(Tmax * N)));
      for (int i = 0; i <= N; ++i)
        VCHECK(ctx, std::fabs((s2.getCumulativeTimes()[i] - sp.getCumulativeTimes()[i]) - delta) <= 2.0 * (i + 2) * U, "shift-knots",
               who << ": knot time " << i << " moves by " << g17(s2.getCumulativeTimes()[i] - sp.getCumulativeTimes()[i]) << " under a start-time shift of " << g17(delta));
      VCHECK(ctx, s2.getStartTime() == c.t0 + delta && same_val(s2.getEnergy(), E) && gsame<S>(s2.getEnergyGrad(), G), "shift-energy", who << ": energy or its gradients change under a start-time shift");
      // reused object: same durations, new start time only
      Spline s3(c.T, c.P, c.t0, c.bc);
      (void)s3.getTrajectory().evaluate(c.t0, 1);
      s3.update(c.T, c.P, c.t0 + delta, c.bc);
      VCHECK(ctx, s3.getCumulativeTimes() == s2.getCumulativeTimes() && s3.getTrajectory().getBreakpoints() == s2.getTrajectory().getBreakpoints() && s3.getEndTime() == s2.getEndTime() && s3.getStartTime() == s2.getStartTime(),
             "shift-knots", who << ": updating an existing object with the same durations and a start time shifted by " << g17(delta) << " does not shift its knot times");
      // evaluation at shifted times agrees
      for (int q = 0; q < 3; ++q) {
        int sg = t.range(0, N - 1); double u = c.T[sg] * t.range(0, 64) / 64.0; int k = t.range(0, nc - 1);
        VCHECK(ctx, vec_same_bits(s2.getTrajectory()[sg].evaluate(u, k), sp.getTrajectory()[sg].evaluate(u, k)), "shift-coefficients", who << ": per-segment evaluation changes under a start-time shift");
      }
      ctx.nontrivial = true;
      break;
    }
    case 1: {  // translating all waypoints translates the trajectory and leaves energy and gradients unchanged
      bool dyadic = t.flag();
      SplineCase<D> cd = c;
      if (dyadic) {  // exactly representable data: every difference of translated waypoints is exact -> bitwise relations
        for (int i = 0; i <= N; ++i) for (int d = 0; d < D; ++d) cd.P(i, d) = t.sym(640) / 64.0;
        cd.M = 10;
      }
      Eigen::Matrix<double, D, 1> w;
      for (int d = 0; d < D; ++d) w(d) = dyadic ? t.sym(64 * 1000) / 64.0 : t.sym(640) / 64.0 * cd.M * 4;
      SplineCase<D> ct = cd;
      for (int i = 0; i <= N; ++i) for (int d = 0; d < D; ++d) ct.P(i, d) = cd.P(i, d) + w(d);
      Spline a = build_spline_hist<D, S>(t, ctx, cd), b = build_spline_hist<D, S>(t, ctx, ct);
      const auto& Ca = a.getTrajectory().getCoefficients(); const auto& Cb = b.getTrajectory().getCoefficients();
      ld wmax = 0; for (int d = 0; d < D; ++d) wmax = std::max(wmax, fabsl((ld)w(d)));
      for (int i = 0; i < N; ++i)
        for (int d = 0; d < D; ++d) {
          VCHECK(ctx, same_val(Cb(i * nc, d), ct.P(i, d)) || fabsl((ld)Cb(i * nc, d) - (ld)ct.P(i, d)) <= tau_fwd(S) * (cd.M + wmax), "translation-c0", who << ": constant coefficient of segment " << i << " is not the translated waypoint");
          ld sc = cd.M + wmax;
          for (int k = 1; k < nc; ++k) sc = std::max(sc, fabsl((ld)Ca(i * nc + k, d)) * RefSpline::ipow(c.T[i], k));
          for (int k = 1; k < nc; ++k) {
            if (dyadic) VCHECK(ctx, same_val(Ca(i * nc + k, d), Cb(i * nc + k, d)), "translation-coefficients", who << ": with exactly representable data, translation changes coefficient (" << i << "," << k << "," << d << "): " << g17(Ca(i * nc + k, d)) << " vs " << g17(Cb(i * nc + k, d)));
            else VCHECK(ctx, fabsl((ld)Ca(i * nc + k, d) - (ld)Cb(i * nc + k, d)) * RefSpline::ipow(c.T[i], k) <= tau_fwd(S) * sc, "translation-coefficients", who << ": translation changes coefficient (" << i << "," << k << "," << d << "): " << g17(Ca(i * nc + k, d)) << " vs " << g17(Cb(i * nc + k, d)));
          }
        }
      double Ea = a.getEnergy(), Eb = b.getEnergy();
      Grads Ga = a.getEnergyGrad(), Gb = b.getEnergyGrad();
      if (dyadic) {
        VCHECK(ctx, same_val(Ea, Eb) && gsame<S>(Ga, Gb), "translation-energy", who << ": with exactly representable data, translation changes the energy or its gradients (" << g17(Ea) << " vs " << g17(Eb) << ")");
        ctx.label("translation:dyadic-bitwise");
      } else {
        // relative perturbation of the waypoint differences caused by rounding the translated waypoints
        ld spread = 0; for (int i = 0; i < N; ++i) for (int d = 0; d < D; ++d) spread = std::max(spread, fabsl((ld)cd.P(i + 1, d) - (ld)cd.P(i, d)));
        ld pert = (ld)DBL_EPSILON * (cd.M + wmax) / (spread > 0 ? spread : 1);
        VCHECK(ctx, fabsl((ld)Ea - (ld)Eb) <= (1e-9L + 64 * N * pert) * std::max(fabsl((ld)Ea), fabsl((ld)Eb)) * (1 + (ld)nc) + Efloor * (1 + 64 * N * pert / 1e-9L) + 1e-280L || spread == 0, "translation-energy", who << ": translation changes the energy: " << g17(Ea) << " vs " << g17(Eb));
        ctx.label("translation:generic");
      }
      ctx.nontrivial = true;
      break;
    }
    case 2: {  // scaling waypoints and boundary states by lambda scales the trajectory by lambda and the energy by lambda^2
      bool p2 = t.flag();
      int k2 = t.sym(12); if (k2 == 0) k2 = 3;
      double lam = p2 ? pow2i(k2) : (1 + t.range(1, 400)) / 64.0 * (t.flag() ? 1 : -1);
      SplineCase<D> cs = c;
      cs.P = c.P * lam;
      for (int m = 1; m <= 3; ++m) { cs.bc_field(false, m) = c.bc_field(false, m) * lam; cs.bc_field(true, m) = c.bc_field(true, m) * lam; }
      Spline b = build_spline_hist<D, S>(t, ctx, cs);
      const auto& Cb = b.getTrajectory().getCoefficients();
      Grads Gb = b.getEnergyGrad();
      MatL p2m, b2m; VecL t2m;
      flatten<D, S>(Gb, N, p2m, b2m, t2m);
      if (p2) {
        MatrixType exp = C * lam;
        VCHECK(ctx, mat_same_bits(Cb, exp), "scaling-coefficients", who << ": scaling the data by 2^" << k2 << " does not scale the coefficients exactly: " << first_diff(Cb, exp));
        VCHECK(ctx, same_val(b.getEnergy(), E * lam * lam), "scaling-energy", who << ": scaling the data by 2^" << k2 << " gives energy " << g17(b.getEnergy()) << " instead of " << g17(E * lam * lam));
        bool ok = true;
        for (int r = 0; r <= N; ++r) for (int d = 0; d < D; ++d) if (!same_val((double)p2m(r, d), (double)pts(r, d) * lam)) ok = false;
        for (int r = 0; r < 6; ++r) for (int d = 0; d < D; ++d) if (!same_val((double)b2m(r, d), (double)bnd(r, d) * lam)) ok = false;
        for (int i = 0; i < N; ++i) if (!same_val((double)t2m(i), (double)tms(i) * lam * lam)) ok = false;
        VCHECK(ctx, ok, "scaling-gradients", who << ": scaling the data by 2^" << k2 << " does not scale the energy gradients exactly (points/boundary x2^k, durations x4^k)");
        ctx.label("scaling:pow2-bitwise");
      } else {
        for (int i = 0; i < N; ++i) for (int d = 0; d < D; ++d) {
          ld sc = c.M; for (int k = 0; k < nc; ++k) sc = std::max(sc, fabsl((ld)C(i * nc + k, d)) * RefSpline::ipow(c.T[i], k));
          for (int k = 0; k < nc; ++k)
            VCHECK(ctx, fabsl((ld)Cb(i * nc + k, d) - (ld)lam * (ld)C(i * nc + k, d)) * RefSpline::ipow(c.T[i], k) <= tau_fwd(S) * sc * fabsl((ld)lam), "scaling-coefficients", who << ": scaling the data by " << g17(lam) << " does not scale coefficient (" << i << "," << k << "," << d << ")");
        }
        VCHECK(ctx, fabsl((ld)b.getEnergy() - (ld)lam * lam * E) <= 1e-9L * (ld)lam * lam * fabsl((ld)E) * (1 + nc) + (ld)lam * lam * Efloor + 1e-280L, "scaling-energy", who << ": scaling the data by " << g17(lam) << " gives energy " << g17(b.getEnergy()) << " instead of " << lg((ld)lam * lam * E));
        ctx.label("scaling:generic");
      }
      break;
    }
    case 3: {  // scaling all durations by mu (boundary derivatives rescaled) reparametrises the curve; energy x mu^-(2s-1)
      bool p2 = t.flag();
      int k2 = t.sym(6); if (k2 == 0) k2 = -2;
      double mu = p2 ? pow2i(k2) : (8 + t.range(0, 200)) / 64.0;
      SplineCase<D> cs = c;
      for (auto& x : cs.T) x *= mu;
      for (int m = 1; m <= 3; ++m) { double f = std::pow(mu, -m); if (p2) f = pow2i(-k2 * m); cs.bc_field(false, m) = c.bc_field(false, m) * f; cs.bc_field(true, m) = c.bc_field(true, m) * f; }
      Spline b = build_spline_hist<D, S>(t, ctx, cs);
      const auto& Cb = b.getTrajectory().getCoefficients();
      if (p2) {
        bool ok = true; std::string fd;
        for (int i = 0; i < N && ok; ++i) for (int k = 0; k < nc && ok; ++k) for (int d = 0; d < D; ++d)
          if (!same_val(Cb(i * nc + k, d), C(i * nc + k, d) * pow2i(-k2 * k))) { ok = false; std::ostringstream o; o << "(" << i << "," << k << "," << d << "): " << g17(Cb(i * nc + k, d)) << " vs " << g17(C(i * nc + k, d) * pow2i(-k2 * k)); fd = o.str(); }
        VCHECK(ctx, ok, "duration-scaling-coefficients", who << ": scaling the durations by 2^" << k2 << " does not reparametrise exactly, c_m x 2^(-km): " << fd);
        VCHECK(ctx, same_val(b.getEnergy(), E * pow2i(-k2 * (2 * S - 1))), "duration-scaling-energy", who << ": scaling the durations by 2^" << k2 << " gives energy " << g17(b.getEnergy()) << " instead of " << g17(E * pow2i(-k2 * (2 * S - 1))));
        // evaluation: x_b(mu u) = x(u), derivative m scaled by mu^-m
        for (int q = 0; q < 3; ++q) {
          int sg = t.range(0, N - 1); double u = c.T[sg] * t.range(0, 64) / 64.0; int m = t.range(0, nc - 1);
          auto v1 = sp.getTrajectory()[sg].evaluate(u, m); auto v2 = b.getTrajectory()[sg].evaluate(u * mu, m);
          bool same = true; for (int d = 0; d < D; ++d) if (!same_val(v2(d), v1(d) * pow2i(-k2 * m))) same = false;
          VCHECK(ctx, same, "duration-scaling-evaluation", who << ": evaluation of the time-scaled spline is not the reparametrised original (segment " << sg << ", order " << m << ")");
        }
        Grads Gb = b.getEnergyGrad();
        MatL p2m, b2m; VecL t2m;
        flatten<D, S>(Gb, N, p2m, b2m, t2m);
        double fE = pow2i(-k2 * (2 * S - 1));
        bool okg = true;
        for (int r = 0; r <= N; ++r) for (int d = 0; d < D; ++d) if (!same_val((double)p2m(r, d), (double)pts(r, d) * fE)) okg = false;
        for (int m = 0; m < 3; ++m) for (int d = 0; d < D; ++d) {  // dE/d(bc_m) : E' = fE * E(bc' mu^m) -> gradient x fE x 2^(k m)
          if (!same_val((double)b2m(m, d), (double)bnd(m, d) * fE * pow2i(k2 * (m + 1)))) okg = false;
          if (!same_val((double)b2m(3 + m, d), (double)bnd(3 + m, d) * fE * pow2i(k2 * (m + 1)))) okg = false;
        }
        VCHECK(ctx, okg, "duration-scaling-gradients", who << ": scaling the durations by 2^" << k2 << " does not scale the point/boundary energy gradients exactly");
        ctx.label("duration-scaling:pow2-bitwise");
      } else {
        for (int i = 0; i < N; ++i) for (int d = 0; d < D; ++d) {
          ld sc = c.M; for (int k = 0; k < nc; ++k) sc = std::max(sc, fabsl((ld)C(i * nc + k, d)) * RefSpline::ipow(c.T[i], k));
          for (int k = 0; k < nc; ++k)
            VCHECK(ctx, fabsl((ld)Cb(i * nc + k, d) * RefSpline::ipow(cs.T[i], k) - (ld)C(i * nc + k, d) * RefSpline::ipow(c.T[i], k)) <= 4 * tau_fwd(S) * sc, "duration-scaling-coefficients",
                   who << ": scaling the durations by " << g17(mu) << " does not reparametrise the curve at coefficient (" << i << "," << k << "," << d << ")");
        }
        ld expect = (ld)E * powl((ld)mu, -(2 * S - 1));
        VCHECK(ctx, fabsl((ld)b.getEnergy() - expect) <= 1e-8L * fabsl(expect) * (1 + nc) + Efloor * powl((ld)mu, -(2 * S - 1)) + 1e-280L, "duration-scaling-energy", who << ": scaling the durations by " << g17(mu) << " gives energy " << g17(b.getEnergy()) << " instead of " << lg(expect));
        ctx.label("duration-scaling:generic");
      }
      break;
    }
    default: {  // time reversal
      SplineCase<D> cr = c;
      for (int i = 0; i < N; ++i) cr.T[i] = c.T[N - 1 - i];
      for (int i = 0; i <= N; ++i) cr.P.row(i) = c.P.row(N - i);
      for (int m = 1; m <= 3; ++m) { double sgn = (m & 1) ? -1.0 : 1.0; cr.bc_field(false, m) = c.bc_field(true, m) * sgn; cr.bc_field(true, m) = c.bc_field(false, m) * sgn; }
      Spline b = build_spline_hist<D, S>(t, ctx, cr);
      const auto& Cb = b.getTrajectory().getCoefficients();
      const ld tr = S == 4 ? 1e-7L : tau_fwd(S) * 10;
      // x_rev on segment j at local u equals x on segment N-1-j at local T-u, derivative m with sign (-1)^m
      for (int j = 0; j < N; ++j) {
        int i = N - 1 - j;
        for (int q = 0; q < 3; ++q) {
          double u = q == 0 ? 0.0 : (q == 1 ? cr.T[j] : cr.T[j] * t.range(1, 63) / 64.0);
          double uo = c.T[i] - u; if (q == 1) uo = 0.0;
          for (int m = 0; m <= 2 * S - 1; ++m) {
            auto vr = b.getTrajectory()[j].evaluate(u, m); auto vo = sp.getTrajectory()[i].evaluate(uo, m);
            double sgn = (m & 1) ? -1.0 : 1.0;
            for (int d = 0; d < D; ++d) {
              // scale of derivative m on this piece: its own terms, the data, and - because the solve is accurate relative to the
              // LARGEST scaled coefficient of the piece (that is what C02 measures), not to each coefficient separately - the
              // size an error of that relative accuracy in c_m..c_{2s-1} produces in derivative m
              ld Sseg = 0; for (int k = 0; k < nc; ++k) Sseg = std::max(Sseg, fabsl((ld)C(i * nc + k, d)) * RefSpline::ipow(c.T[i], k));
              ld fm = 1; for (int q = 0; q < m; ++q) fm *= (ld)(nc - 1 - q);
              ld sc = seg_abs_scale(C, i, nc, d, (ld)c.T[i], m) + (std::max((ld)c.M, c.data_mag(d, S)) + fm * Sseg) / RefSpline::ipow(c.T[i], m);
              if (sc > 0) ctx.maxi("reversal_eval_" + std::string(SplineOf<D, S>::name()), (double)(fabsl((ld)vr(d) - sgn * (ld)vo(d)) / sc));
              VCHECK(ctx, fabsl((ld)vr(d) - sgn * (ld)vo(d)) <= tr * sc, "reversal-evaluation",
                     who << ": derivative " << m << " of the reversed spline on segment " << j << " at u=" << g17(u) << " coordinate " << d << " is " << g17(vr(d)) << " but (-1)^m times the original at the mirrored time is " << g17(sgn * vo(d)) << " (durations " << c.dur_shape << " ratio " << g6(c.ratio) << ")");
            }
          }
        }
      }
      (void)Cb;
      VCHECK(ctx, fabsl((ld)b.getEnergy() - (ld)E) <= 1e-8L * fabsl((ld)E) * (1 + nc) + Efloor + 1e-280L, "reversal-energy", who << ": energy of the reversed problem " << g17(b.getEnergy()) << " differs from " << g17(E));
      const MatL pts0 = pts, bnd0 = bnd; const VecL tms0 = tms;
      for (int via = 0; via < 2 && !ctx.failed; ++via) {
      // mirrored gradients, obtained (0) directly and (1) by propagating the energy's partial gradients through the spline
      const char* vname = via == 0 ? "getEnergyGrad()" : "propagateGrad(energy partials)";
      Grads Gb = via == 0 ? b.getEnergyGrad() : b.propagateGrad(b.getEnergyPartialGradByCoeffs(), b.getEnergyPartialGradByTimes());
      MatL pts, bnd; VecL tms;
      if (via == 0) { pts = pts0; bnd = bnd0; tms = tms0; }
      else { Grads Go = sp.propagateGrad(sp.getEnergyPartialGradByCoeffs(), sp.getEnergyPartialGradByTimes()); flatten<D, S>(Go, N, pts, bnd, tms); }
      MatL pr, br; VecL trv;
      flatten<D, S>(Gb, N, pr, br, trv);
      ld st = 0; for (int i = 0; i < N; ++i) st = std::max(st, fabsl(tms(i)));
      for (int i = 0; i < N; ++i) {
        ld e_ = fabsl(trv(i) - tms(N - 1 - i));
        if (st > 0 && e_ > tau_zero(S) * natT) ctx.maxi("reversal_grad_times_" + std::string(SplineOf<D, S>::name()), (double)((e_ - tau_zero(S) * natT) / st));
      }
      for (int i = 0; i < N; ++i)
        VCHECK(ctx, fabsl(trv(i) - tms(N - 1 - i)) <= TAU_ADJ * st * 10 + tau_zero(S) * natT + 1e-280L, "reversal-gradients", who << " via " << vname << ": duration gradient " << i << " of the reversed problem is " << lg(trv(i)) << ", mirrored original " << lg(tms(N - 1 - i)));
      for (int d = 0; d < D; ++d) {
        ld sp_ = 0; for (int r = 0; r <= N; ++r) sp_ = std::max(sp_, fabsl(pts(r, d)));
        for (int r = 0; r <= N; ++r) {
          ld e_ = fabsl(pr(r, d) - pts(N - r, d));
          if (sp_ > 0 && e_ > tau_zero(S) * natP[d]) ctx.maxi("reversal_grad_points_" + std::string(SplineOf<D, S>::name()), (double)((e_ - tau_zero(S) * natP[d]) / sp_));
        }
        for (int r = 0; r <= N; ++r)
          VCHECK(ctx, fabsl(pr(r, d) - pts(N - r, d)) <= TAU_ADJ * sp_ * 10 + tau_zero(S) * natP[d] + 1e-280L, "reversal-gradients", who << " via " << vname << ": point gradient " << r << " coordinate " << d << " of the reversed problem is " << lg(pr(r, d)) << ", mirrored original " << lg(pts(N - r, d)));
        for (int m = 0; m < 3; ++m) {
          ld sgn = ((m + 1) & 1) ? -1.0L : 1.0L;
          ld sb = std::max(std::max(fabsl(bnd(m, d)), fabsl(bnd(3 + m, d))), std::max(fabsl(br(m, d)), fabsl(br(3 + m, d))));
          ld fl = tau_zero(S) * natP[d] * RefSpline::ipow(Tmax, m + 1) + 1e-280L;
          VCHECK(ctx, fabsl(br(m, d) - sgn * bnd(3 + m, d)) <= TAU_ADJ * sb * 10 + fl && fabsl(br(3 + m, d) - sgn * bnd(m, d)) <= TAU_ADJ * sb * 10 + fl, "reversal-gradients",
                 who << " via " << vname << ": boundary gradient of order " << m + 1 << " coordinate " << d << " is not swapped with sign (-1)^m under time reversal: start " << lg(br(m, d)) << " vs " << lg(sgn * bnd(3 + m, d)) << ", end " << lg(br(3 + m, d)) << " vs " << lg(sgn * bnd(m, d)));
        }
      }
      }
      bool asym = false; for (int i = 0; i < N; ++i) if (c.T[i] != c.T[N - 1 - i]) asym = true;
      ctx.nontrivial = N >= 3 && asym;
      if (asym) ctx.label("reversal:asymmetric-durations");
      break;
    }
  }
  (void)natPmax;
}

void c10(Tape& t, Ctx& ctx) { with_order(2 + t.range(0, 2), [&](auto tag) { c10_case<decltype(tag)::s>(t, ctx); }); }
void c13(Tape& t, Ctx& ctx) { with_order(2 + t.range(0, 2), [&](auto tag) { c13_case<decltype(tag)::s>(t, ctx); }); }
void c14(Tape& t, Ctx& ctx) { with_order(2 + t.range(0, 2), [&](auto tag) { c14_case<decltype(tag)::s>(t, ctx); }); }

Registrar r10({"C10", "spline object reuse, dim=" + std::to_string(VDIM), 3000, 0, c10, nullptr});
Registrar r13({"C13", "D-dimensional vs one-dimensional splines, dim=" + std::to_string(VDIM), 1200, 0, c13, nullptr});
Registrar r14({"C14", "metamorphic relations, dim=" + std::to_string(VDIM), 900, 0, c14, nullptr});

}  // namespace meta
