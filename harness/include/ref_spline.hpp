// ref_spline.hpp - reference models in long double, sharing no code with the library:
//   R2  dense solve of the optimality conditions (coefficients as unknowns) -> unique minimiser of int |x^(s)|^2
//   R3  exact energy of published coefficients, its partials
//   R4  dense Jacobian of (P, T, bc) -> coefficients, transpose products and condition-aware scale
#pragma once
#include "vcore.hpp"
#include "ref_poly.hpp"
#include <Eigen/Dense>

namespace vf {

typedef Eigen::Matrix<ld, Eigen::Dynamic, Eigen::Dynamic> MatL;
typedef Eigen::Matrix<ld, Eigen::Dynamic, 1> VecL;

// problem data in long double; s = 2 (cubic), 3 (quintic), 4 (septic); boundary derivatives bcS/bcE have s-1 rows (orders 1..s-1)
struct RefProblem {
  int s = 2, N = 0, dim = 0;
  VecL T;          // N
  MatL P;          // (N+1) x dim
  MatL bcS, bcE;   // (s-1) x dim   row m-1 = derivative of order m at the start / end
};

struct RefSpline {
  int s = 2, N = 0, dim = 0, nc = 0, n = 0;  // nc = 2s coefficients per piece, n = nc*N unknowns per dimension
  VecL T;
  MatL A;        // unnormalised system  A c = b
  VecL colS;     // column scaling: c = colS .* d
  VecL rowR;     // row equilibration
  Eigen::FullPivLU<MatL> lu;
  MatL C;        // solution: n x dim coefficient matrix (segment-major, ascending powers) - same layout as the library
  ld residual = 0;  // scaled self-residual of the solve
  bool ok = false;
  // column index of the data in the right-hand side map  b = B * theta,  theta = [P_0..P_N, bcS_1..bcS_{s-1}, bcE_1..bcE_{s-1}]
  int ntheta() const { return N + 1 + 2 * (s - 1); }
  MatL B;        // n x ntheta   (b is linear in the data and independent of T)

  static ld ipow(ld x, int k) { ld r = 1; for (int i = 0; i < k; ++i) r *= x; return r; }

  void assemble(const RefProblem& p) {
    s = p.s; N = p.N; dim = p.dim; nc = 2 * s; n = nc * N; T = p.T;
    A = MatL::Zero(n, n);
    B = MatL::Zero(n, ntheta());
    int r = 0;
    auto col = [&](int seg, int k) { return seg * nc + k; };
    for (int i = 0; i < N; ++i) {  // left end of each piece
      A(r, col(i, 0)) = 1; B(r, i) = 1; ++r;
    }
    for (int i = 0; i < N; ++i) {  // right end of each piece
      for (int k = 0; k < nc; ++k) A(r, col(i, k)) = ipow(T(i), k);
      B(r, i + 1) = 1; ++r;
    }
    for (int m = 1; m < s; ++m) {  // prescribed derivatives at the start
      A(r, col(0, m)) = ff(m, m); B(r, N + 1 + (m - 1)) = 1; ++r;
    }
    for (int m = 1; m < s; ++m) {  // prescribed derivatives at the end
      for (int k = m; k < nc; ++k) A(r, col(N - 1, k)) = ff(k, m) * ipow(T(N - 1), k - m);
      B(r, N + 1 + (s - 1) + (m - 1)) = 1; ++r;
    }
    for (int j = 1; j < N; ++j)    // continuity of derivatives 1..2s-2 at interior knots
      for (int m = 1; m <= 2 * s - 2; ++m) {
        for (int k = m; k < nc; ++k) A(r, col(j - 1, k)) = ff(k, m) * ipow(T(j - 1), k - m);
        A(r, col(j, m)) = -ff(m, m);
        ++r;
      }
    // scaling
    colS.resize(n);
    for (int i = 0; i < N; ++i) for (int k = 0; k < nc; ++k) colS(col(i, k)) = 1 / ipow(T(i), k);
    MatL M = A * colS.asDiagonal();
    rowR.resize(n);
    for (int i = 0; i < n; ++i) { ld mx = M.row(i).cwiseAbs().maxCoeff(); rowR(i) = mx > 0 ? 1 / mx : 1; }
    M = rowR.asDiagonal() * M;
    lu.compute(M);
    lu.setThreshold(0);
    Mscaled = M;
  }
  MatL Mscaled;

  // solve A x = y (y: n x k) with two steps of iterative refinement
  MatL solve(const MatL& y) const {
    MatL ry = rowR.asDiagonal() * y;
    MatL d = lu.solve(ry);
    for (int it = 0; it < 2; ++it) {
      MatL res = ry - Mscaled * d;
      d += lu.solve(res);
    }
    return colS.asDiagonal() * d;
  }

  void solve_problem(const RefProblem& p) {
    assemble(p);
    MatL theta(ntheta(), dim);
    theta.topRows(N + 1) = p.P;
    if (s > 1) { theta.middleRows(N + 1, s - 1) = p.bcS; theta.middleRows(N + 1 + s - 1, s - 1) = p.bcE; }
    MatL b = B * theta;
    C = solve(b);
    // self-residual in the scaled system
    MatL d = (colS.cwiseInverse()).asDiagonal() * C;
    MatL rb = rowR.asDiagonal() * b;
    MatL res = Mscaled * d - rb;
    ld an = Mscaled.cwiseAbs().rowwise().sum().maxCoeff();
    ld xn = d.cwiseAbs().maxCoeff(), bn = rb.cwiseAbs().maxCoeff();
    residual = res.cwiseAbs().maxCoeff() / (an * xn + bn + 1e-4000L);
    ok = std::isfinite((double)residual) && residual <= 1e-15L;
  }

  // ---- R4: Jacobian pieces.  G = A^{-1} B  (n x ntheta), same for every dimension.
  MatL G;
  std::vector<MatL> K;  // per dimension: n x N,  dc[:,d]/dT_i = -A^{-1} (dA/dT_i) c[:,d]
  void jacobian() {
    G = solve(B);
    K.assign(dim, MatL::Zero(n, N));
    auto col = [&](int seg, int k) { return seg * nc + k; };
    for (int i = 0; i < N; ++i) {
      // dA/dT_i * c  (n x dim): only rows that involve T_i
      MatL dAc = MatL::Zero(n, dim);
      int r = N + i;  // right-end row of piece i
      for (int k = 1; k < nc; ++k) dAc.row(r) += (ld)k * ipow(T(i), k - 1) * C.row(col(i, k));
      if (i == N - 1)
        for (int m = 1; m < s; ++m) {
          int rr = 2 * N + (s - 1) + (m - 1);
          for (int k = m + 1; k < nc; ++k) dAc.row(rr) += ff(k, m) * (ld)(k - m) * ipow(T(i), k - m - 1) * C.row(col(i, k));
        }
      if (i + 1 < N) {  // continuity rows at knot j = i+1 use T_{j-1} = T_i
        int j = i + 1;
        int base = 2 * N + 2 * (s - 1) + (j - 1) * (2 * s - 2);
        for (int m = 1; m <= 2 * s - 2; ++m)
          for (int k = m + 1; k < nc; ++k) dAc.row(base + m - 1) += ff(k, m) * (ld)(k - m) * ipow(T(i), k - m - 1) * C.row(col(i, k));
      }
      MatL x = solve(dAc);
      for (int d = 0; d < dim; ++d) K[d].col(i) = -x.col(d);
    }
  }

  struct Adjoint {
    MatL theta;       // ntheta x dim : gradient w.r.t. [P_0..P_N, bcS.., bcE..]
    VecL times;       // N
    MatL theta_sigma; // condition-aware scale  |J|^T |G|
    VecL times_sigma;
    // natural magnitudes (floors for components that vanish by exact cancellation): what a generic entry of that kind is made of.
    // d c_k / d P ~ 1/T^k,  d c_k / d bc_m ~ T^(m-k),  d c_k / d T ~ max(|c_k|, data/T^k) / T
    MatL theta_nat;
    VecL times_nat;
  };
  // total derivative of a scalar with partials (gC: n x dim, gT: N)
  Adjoint adjoint(const MatL& gC, const VecL& gT) const {
    Adjoint a;
    a.theta = G.transpose() * gC;
    a.theta_sigma = G.cwiseAbs().transpose() * gC.cwiseAbs();
    a.times = gT;
    a.times_sigma = gT.cwiseAbs();
    for (int d = 0; d < dim; ++d) {
      a.times += K[d].transpose() * gC.col(d);
      a.times_sigma += K[d].cwiseAbs().transpose() * gC.col(d).cwiseAbs();
    }
    a.theta_nat = MatL::Zero(ntheta(), dim);
    a.times_nat = VecL::Zero(N);
    ld Tmin = T.minCoeff();
    for (int d = 0; d < dim; ++d) {
      ld dataM = 0;
      for (int i = 0; i < N; ++i) for (int k = 0; k < nc; ++k) dataM = std::max(dataM, fabsl(C(i * nc + k, d)) * ipow(T(i), k));  // normalised coefficient magnitude (position units)
      ld natP = 0, natT = 0;
      for (int i = 0; i < N; ++i)
        for (int k = 0; k < nc; ++k) {
          ld g = fabsl(gC(i * nc + k, d));
          ld tk = ipow(T(i), k);
          natP += g / ipow(Tmin, k);  // intermediate terms of the elimination are amplified by the shortest neighbour
          natT += g * std::max(fabsl(C(i * nc + k, d)), dataM / tk) / Tmin;
        }
      for (int r = 0; r <= N; ++r) a.theta_nat(r, d) = natP;
      for (int m = 1; m < s; ++m) { a.theta_nat(N + m, d) = natP * ipow(T(0), m); a.theta_nat(N + (s - 1) + m, d) = natP * ipow(T(N - 1), m); }
      for (int i = 0; i < N; ++i) a.times_nat(i) += natT;
    }
    return a;
  }
};

// ---- R3: exact energy of a coefficient matrix (n x dim, segment-major, ascending powers), nc = 2s
struct RefEnergy {
  ld E = 0, abssum = 0;
  MatL dC;    // dE/dc
  VecL dT;    // dE/dT_i = |p_i^(s)(T_i)|^2
  VecL dT_abs;
};
template <class CoefMat>
inline RefEnergy ref_energy(const CoefMat& C, const VecL& T, int s, int dim, bool want_grad = true) {
  RefEnergy r;
  int nc = 2 * s, N = (int)T.size();
  if (want_grad) { r.dC = MatL::Zero(nc * N, dim); r.dT = VecL::Zero(N); r.dT_abs = VecL::Zero(N); }
  for (int i = 0; i < N; ++i) {
    for (int j = s; j < nc; ++j)
      for (int k = s; k < nc; ++k) {
        int p = j + k - 2 * s + 1;
        ld w = ff(j, s) * ff(k, s) * RefSpline::ipow(T(i), p) / (ld)p;
        for (int d = 0; d < dim; ++d) {
          ld cj = (ld)C(i * nc + j, d), ck = (ld)C(i * nc + k, d);
          r.E += w * cj * ck;
          r.abssum += fabsl(w * cj * ck);
          if (want_grad) r.dC(i * nc + j, d) += 2 * w * ck;
        }
      }
    if (want_grad)
      for (int d = 0; d < dim; ++d) {
        RefVal v = ref_poly_eval([&](int m) { return C(i * nc + m, d); }, nc, T(i), s);
        r.dT(i) += v.value * v.value;
        r.dT_abs(i) += v.abssum * v.abssum;
      }
  }
  return r;
}

}  // namespace vf
