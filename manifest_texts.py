"""Per-property texts for MANIFEST.json (what assurance each check gives, what it trusts, which method decides it)."""

HOOK_COMMITS = []
EXTRA_ENGINES = []
NOT_APPLICABLE = {}
NOTES = ("All checks are generated-input searches against explicit oracles (property-based testing with rapidcheck; libFuzzer targets where listed). "
         "run_check.py rebuilds stale binaries from /repo's current working tree (content hash of /repo/include and the harness), replays committed regression cases first, "
         "then runs the search, confirms every failure by replaying the shrunk case three times outside rapidcheck, applies known_findings.json, and rewrites evidence/<id>.json. "
         "VERIF_SEED selects the seeds of all workers. See DESIGN.md.")

_BASE_NOTE = ("Trusted: the harness's own reference models (long-double arithmetic, validated against an independent second route in --selftest), clang 14 ASan/UBSan, rapidcheck, IEEE-754 double arithmetic "
              "without -ffast-math/-march=native in the harness build. Exploration only: absence of violations on the generated cases is not a proof.")

TEXT = {
    "C01": {"technique": "property-based testing (rapidcheck): validity predicates + differential between construction routes",
            "level": "Generated search over orders, all dimensions 1..10, N, well-scaled durations, data, start times, BoundaryConditions constructors and five construction routes; every knot is probed from both sides, "
                     "boundary derivatives at both ends, both time specifications compared (bitwise on exactly representable times), every bookkeeping getter checked. Decides the property on tens of thousands of generated problems per run "
                     "with tolerances 3+ orders above the library's measured rounding and far below any coding slip.",
            "note": _BASE_NOTE + " Inputs restricted to the well-scaled duration domain (DESIGN s4) and finite magnitudes <= ~1e10."},
    "C02": {"technique": "property-based testing (rapidcheck): differential against a dense long-double reference solve + variational (first-variation) test + continuity predicate; structures enumerated",
            "level": "Each generated spline is compared coefficient by coefficient with the unique minimiser obtained by an independent dense long-double solve of the optimality conditions, its derivative jumps at interior knots are bounded, "
                     "and the first variation of the energy along generated admissible perturbations (non-zero derivatives at interior knots) must vanish; duration structures for N=1..10 are enumerated exhaustively per run.",
            "note": _BASE_NOTE + " 'All sufficiently smooth curves' is decided through uniqueness of the solution of the optimality conditions plus a finite perturbation family."},
    "C03": {"technique": "property-based testing (rapidcheck) with a reference model of piece selection and long-double Horner evaluation; route-differential (bitwise)",
            "level": "Generated piecewise polynomials (dynamic and fixed coefficient counts 1..12, 1..80 segments incl. 31/32/33, breakpoint gaps down to 1 ulp) and query histories (on breakpoints, +-1 ulp, outside, any derivative order, any hint incl. stale and out-of-range) "
                     "are evaluated through every route; values must lie within the running Horner error bound of the model's piece and all routes must agree bitwise; the hint post-condition is checked after every hinted call.",
            "note": _BASE_NOTE + " Breakpoints strictly increasing; derivative order >= 0."},
    "C04": {"technique": "property-based testing (rapidcheck): differential against exact long-double integration of the published polynomials + closed-form anchors + sum-over-dimensions relation",
            "level": "getEnergy() is compared with the exact integral (long double) of the squared s-th derivative of the trajectory the spline publishes, for any positive durations, on fresh and reused objects; closed-form anchors that bypass the reference; energy equals the sum of 1-D energies.",
            "note": _BASE_NOTE},
    "C05": {"technique": "property-based testing (rapidcheck): differential against a dense long-double Jacobian (transpose product with condition-aware scale), metamorphic linearity, history independence (bitwise)",
            "level": "For generated problems and upstream gradients (dense, unit vectors on every kind of row, low-order rows, single blocks, pure time gradients) every component returned by propagateGrad is compared with J^T G computed from a dense long-double Jacobian that shares no code with the library; "
                     "linearity is checked exactly for power-of-two factors and results must not depend on earlier propagation calls (bitwise vs a fresh object).",
            "note": _BASE_NOTE + " Well-scaled duration domain only (outside it the adjoint of an inaccurate forward solve has no sharp oracle)."},
    "C06": {"technique": "property-based testing (rapidcheck): differential against reference partials and reference Jacobian; finite differences of the reported energy with Richardson extrapolation and self-calibrating slack",
            "level": "Partial gradients are compared with the exact derivative of the energy integral; total gradients with the reference Jacobian applied to reference partials at the reference minimiser (no library code on the oracle side); "
                     "and, literally as stated, with central differences of the reported getEnergy() w.r.t. every duration, waypoint coordinate and boundary-state component.",
            "note": _BASE_NOTE + " Well-scaled duration domain."},
    "C11": {"technique": "stateful property-based testing (rapidcheck): operation sequences interpreted against a model, every live instance probed after every operation (bitwise vs fresh object)",
            "level": "Generated operation sequences (update same/different sizes, rejected update, evaluate at any order, copy-construct, copy-assign incl. self, derivative(k), destroy) over a pool of heap-allocated PPolyND instances; after every step every instance must evaluate bitwise like a fresh object built from the model's data. "
                     "Spline objects: exposed trajectory (by reference) must follow updates, copies must not.",
            "note": _BASE_NOTE + " ASan turns reads of stale or freed cache storage into visible failures."},
    "C16": {"technique": "property-based testing (rapidcheck) with an independently written validity predicate; exhaustive enumeration of single non-finite placements",
            "level": "Histories of valid/invalid initialisations on one optimizer (all three orders, dimensions 1..3): return value, isValid, operator bool, getLastError and both checkValidity forms are compared with an independently written predicate; "
                     "every single placement of NaN/+Inf/-Inf in every field for N<=4 is enumerated on every run; PPolyND rejection rules and at() range checks are exercised by construction and by update onto valid objects.",
            "note": _BASE_NOTE + " The harness is built without -ffast-math (under which finiteness checks are meaningless)."},
    "C17": {"technique": "property-based testing (rapidcheck): long-double closed forms, adjacent-double monotonicity, round trips, finite differences of the actual map",
            "level": "Hundreds of thousands of generated optimisation variables (dense around the branch at 0, with neighbours at +-1..3 ulp, up to |tau|=1e6) and durations in [1e-6,1e6]: positivity, closed-form value, monotonicity between adjacent doubles and strict increase beyond rounding, C1 at the switch, both round trips, backward = g*T'(tau) (closed form and finite differences of the actual toTime), identity map bitwise.",
            "note": _BASE_NOTE},
    "C18": {"technique": "property-based testing (rapidcheck): defining-equation residuals in long double from the published coefficients; known-finding region excluded by construction and counted",
            "level": "Generated duration vectors with max/min ratio up to 100 in every placement pattern; interpolation, boundary-state and continuity residuals (all derivative orders up to 2s-2) are evaluated in long double and must stay below 1e-3 scaled. "
                     "The recorded septic defect (F1) is excluded only inside its listed region; everything else in that region is still judged.",
            "note": _BASE_NOTE + " known_findings.json lists F1; a violation outside the listed region is reported."},
    "C20": {"technique": "property-based testing (rapidcheck): contract predicate over generated (start,end,dt) triples, model Riemann sum, Gauss-Legendre reference arc length, exact factory values",
            "level": "Generated triples incl. dt that exactly / nearly / does not divide the interval, remainders around the 1e-6 append threshold, zero-length intervals and sub-ranges are checked against the full sequence contract; "
                     "trajectory length must equal the left Riemann sum over that sequence and lie within step x integral|x''| of the true arc length; zero/constant factories are probed at generated times, orders and hints.",
            "note": _BASE_NOTE + " Domain: |t| <= 1e6, dt >= 1e-4, <= 2e5 steps."},
}

TEXT.update({
    "C07": {"technique": "property-based testing (rapidcheck) over an exhaustively enumerated configuration space (256 flag sets x 3 map pairs per order and dimension): finite differences (Richardson, self-calibrating slack) of the cost returned by the same call",
            "level": "For every flag combination, every order, dimensions 1..4 and three time/spatial map pairs (incl. user maps with fewer or more unconstrained than physical coordinates) a generated problem, cost program (depending on p,v,a,j,s, global time, segment index), K, energy weight and decision vector are drawn; "
                     "the gradient written by evaluate is compared, coordinate by coordinate and along generated directions, with central differences of the cost returned by evaluate itself.",
            "note": _BASE_NOTE + " Cost functor families are FD-checked in --selftest so that a wrong hand-derived gradient cannot masquerade as a library defect. Sensitivity ~1e-6 of the gradient norm."},
    "C08": {"technique": "property-based testing (rapidcheck): recording cost functor + reference model of decode, quadrature nodes, trapezoid weights and exact energy",
            "level": "A recording running-cost functor logs every call; the log must contain exactly the documented nodes with the right segment index, local and global time and the trajectory's derivatives (long-double reference); the returned cost must equal the documented decomposition computed independently; "
                     "two closed-form integrands pin the trapezoid weights for every K; the two-cost overload must equal the three-cost one bitwise.",
            "note": _BASE_NOTE + " Decode of the decision vector is recomputed from the documented layout (also on workspaces previously used for other problems)."},
    "C09": {"technique": "exhaustive enumeration of the configuration space (27648 configurations) with generated data per configuration + stateful property-based testing of reconfiguration histories, against a reference model of the documented layout",
            "level": "Every flag set x order x N<=6 x dimension<=3 x {default maps, user maps with per-point unconstrained dimension != DIM} is checked on every run: reported dimension, every slot of the initial guess, and the spline exposed after evaluating the initial guess and a vector perturbed in every slot (bitwise against the model's decode). "
                     "Histories of reconfiguration (flags, maps, new initial state) are interpreted against the same model.",
            "note": _BASE_NOTE + " Maps are user code and are used by the model as given."},
    "C10": {"technique": "stateful property-based testing (rapidcheck): reused object / workspace vs freshly constructed one, bitwise",
            "level": "Generated histories of updates (both overloads, growing and shrinking N incl. 1 and 2) interleaved with every kind of query on one long-lived spline object, and of evaluations through one reused optimizer workspace across different optimizers, sizes and flags; every answer must be bit-identical to that of a freshly constructed object, and repeated read-only queries must repeat.",
            "note": _BASE_NOTE + " Bitwise comparison is sound because both sides execute the same code on the same inputs in a build without -march=native/-ffast-math; it cannot see an error common to both (C01..C08 cover that)."},
    "C13": {"technique": "property-based testing (rapidcheck): differential D-dimensional spline vs D one-dimensional splines; metamorphic coordinate permutation",
            "level": "For D = 2..10 (septic D<=3 and D>3 are different code) coefficients, evaluations, propagated and energy gradients are compared coordinate by coordinate with the one-dimensional splines of the columns, energy and duration gradients with the sums over coordinates, and everything again under a generated coordinate permutation.",
            "note": _BASE_NOTE},
    "C14": {"technique": "property-based testing (rapidcheck): metamorphic relations (exact for power-of-two factors and exactly representable shifts, tolerance otherwise)",
            "level": "Time shift, translation, data scaling, duration scaling and time reversal are applied to generated well-scaled problems; power-of-two scalings, start-time shifts and translations of exactly representable data must hold bitwise for coefficients, energy and gradients; reversal is checked for every derivative order at knots and interior points and for mirrored gradients.",
            "note": _BASE_NOTE},
    "C15": {"technique": "stateful property-based testing (rapidcheck) with stateful, address-recording user map types under ASan; copy vs freshly configured optimizer (bitwise)",
            "level": "Generated sequences of construction, configuration, evaluation, copy-construction (lvalue/rvalue), assignment (plain, temporary, chained, self, over an optimizer owning a workspace), source mutation and destruction over heap-allocated optimizers; after every step every optimizer must evaluate bitwise like a freshly configured equivalent, call only its own default maps or the user's maps, and expose its own spline object.",
            "note": _BASE_NOTE + " Default maps are instantiated as stateful types, because a stateless map (the bundled ones) would hide sharing."},
})
TEXT["C19"] = {"technique": "property-based testing (rapidcheck): model of the documented procedure re-enacted through public evaluate calls; verdict judged with tolerances generated relative to the measured finite-difference resolution; planted single-component gradient errors",
               "level": "For generated problems, flags, cost programs, step sizes, both overloads and both workspace modes the result fields are compared with a re-enactment of the procedure (analytic gradient bitwise, numerical gradient, norms), the workspace state after the call is compared bitwise with a plain evaluation, "
                        "correct functors must be accepted and functors with a single wrong gradient component (effect 30x / 1000x the tolerance) must be rejected.",
               "note": _BASE_NOTE + " Tolerances are generated relative to what the helper's own central differences can resolve at that point (a finite-difference self-check cannot certify more); the default 1e-4 is used wherever it is resolvable."}
TEXT["C12"] = {"technique": "property-based testing (rapidcheck) with harness-owned executors: exhaustive permutation schedules for small N, generated thread partitions, OpenMP; ThreadSanitizer build for concurrent evaluation (schedule owned by the harness, report = violation)",
               "level": "The executor is user-supplied, so the harness owns the schedule: every permutation of the segment order (N<=5), generated thread partitions and the bundled OpenMP executor must reproduce the serial cost, gradient and workspace spline bit for bit. "
                        "A ThreadSanitizer build runs generated concurrent evaluations on one optimizer with per-thread workspaces, with and without a prior single-threaded call; any race report or any thread result differing from the sequential call is a violation.",
               "note": _BASE_NOTE + " TSan replaces ASan/UBSan for the race half. The defect this check found on the pinned tree (F2) is repaired by a 'fix:' commit in /repo and kept as a regression case."}
EXTRA_ENGINES.append({"name": "ThreadSanitizer", "path": "harness/src/opt_sched.cpp", "serves_properties": ["C12"], "kind_free_text": "clang -fsanitize=thread build of the concurrent-evaluation half of C12, driven by the same rapidcheck front end"})

# engines / techniques that changed after the first version
for _p in ("C03", "C11", "C16", "C20"):
    TEXT[_p]["engine"] = "rapidcheck + libFuzzer"
    TEXT[_p]["technique"] += "; coverage-guided fuzzing (libFuzzer) of the same check function"
TEXT["C07"]["technique"] = ("property-based testing (rapidcheck) over an exhaustively enumerated configuration space (256 flag sets x 3 map pairs per order and dimension): (a) finite differences (Richardson, self-calibrating slack) "
                            "of the cost returned by the same call; (b) differential against a gradient re-derived from the reference minimiser, the user's cost gradients, the documented quadrature and a dense long-double Jacobian")
TEXT["C07"]["level"] += (" A second, non-FD oracle (C07x) re-derives the gradient from the reference minimiser, the user's cost gradients at the reference states, the documented quadrature and the reference Jacobian, for all three map pairs, "
                         "and compares every entry at 1e-7 of a condition-aware scale (measured worst 4e-11).")
TEXT["C18"]["technique"] += "; guided search (hill climbing over the duration genome, generated moves) for the worst residual under a ratio cap"
EXTRA_ENGINES.append({"name": "libFuzzer", "path": "harness/src/fuzz_ppoly.cpp", "serves_properties": ["C03", "C11", "C16", "C20"],
                      "kind_free_text": "clang -fsanitize=fuzzer,address,undefined; input bytes are read as the word tape of the same check function; quick tier replays corpus/<id>/, thorough tier runs 8 campaigns of 2e5 runs (C11: 1e5)"})
