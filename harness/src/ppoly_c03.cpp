// C03 - piecewise-polynomial evaluation is exact, right-continuous and route-independent.
// One binary per spatial dimension (-DVDIM); container types: dynamic, <4>, <6>, <8>, <12>.
#include "ppoly_gen.hpp"

#ifndef VDIM
#define VDIM 3
#endif

using namespace vf;
using namespace SplineTrajectory;

namespace c03 {

template <class PP, int DIM, int FIXED>
void run_case(Tape& t, Ctx& ctx, const char* tname) {
  using MatrixType = typename PP::MatrixType;
  using VectorType = typename PP::VectorType;
  // ---- structure
  static const int segchoices[] = {1, 2, 3, 31, 32, 33, 64};
  int nseg = t.chance(1, 3) ? segchoices[t.range(0, 6)] : t.range(1, 80);
  int maxc = FIXED > 0 ? FIXED : 12;
  int ncoef = t.rangez(1, maxc, std::min(4, maxc));
  PPModel<DIM> m;
  std::string bdesc;
  m.b = gen_breakpoints(t, nseg, &bdesc);
  gen_coeff_rows(t, m, nseg, ncoef);
  // magnitude classes: as generated; the whole trajectory in tiny units; only the leading coefficients tiny (an evaluation kernel that
  // treats "almost zero" leading coefficients as zero stays route-consistent and only loses exactness; seeded C03-3)
  int magcls = t.pickw({6, 1, 1});
  if (magcls == 1) { double f = pow10i(-t.range(12, 12)) * pow2i(-t.range(0, 20)); for (auto& r : m.rows) for (int d = 0; d < DIM; ++d) r[d] *= f; ctx.label("magnitude:tiny-units"); }
  else if (magcls == 2 && ncoef >= 2) {
    double f = pow10i(-12) * pow2i(-t.range(0, 30));
    for (int sgi = 0; sgi < nseg; ++sgi) for (int d = 0; d < DIM; ++d) { double& v = m.rows[(size_t)sgi * ncoef + ncoef - 1][d]; v = (v == 0 ? 1.0 : v) * f; }
    ctx.label("magnitude:tiny-leading-coefficient");
  }
  MatrixType C = model_matrix<DIM, MatrixType>(m);
  // how the object under test came to hold this polynomial: constructor, update of a default-constructed object, or copy-assignment /
  // update over an object that held ANOTHER polynomial and was already evaluated (every route must then serve the new data)
  int how = t.pickw({3, 3, 1, 1});
  bool via_update = (how == 1);
  PP pp_ctor(m.b, C, ncoef);
  PP pp_upd;
  if (how == 1) pp_upd.update(m.b, C, ncoef);
  else if (how >= 2) {
    int n2 = 1 + t.range(0, 5), c2 = 1 + t.range(0, maxc - 1);
    PPModel<DIM> other; other.b = gen_breakpoints(t, n2); gen_coeff_rows(t, other, n2, c2);
    pp_upd = PP(other.b, model_matrix<DIM, MatrixType>(other), c2);
    int h2 = 0;
    for (int k = 0; k <= c2; ++k) { (void)pp_upd.evaluate(other.b[0] + 0.125 * k, k); (void)pp_upd.evaluate(other.b[0], &h2, k); }
    if (how == 2) pp_upd = pp_ctor; else pp_upd.update(m.b, C, ncoef);
    ctx.label(how == 2 ? "object:assigned-over-evaluated" : "object:updated-over-evaluated");
  }
  const PP& pp = (how == 0) ? pp_ctor : pp_upd;

  ctx.label(std::string("type:") + tname);
  ctx.label(nseg < 32 ? "segments<32" : "segments>=32");
  ctx.label(ncoef <= 8 ? "ncoef<=8" : "ncoef>8");
  if (ctx.want_desc)
    ctx.desc << "\"container\": \"" << tname << "\", \"dim\": " << DIM << ", \"segments\": " << nseg << ", \"ncoef\": " << ncoef
             << ", \"breakpoints\": \"" << bdesc << "\", \"via_update\": " << (via_update ? "true" : "false");

  // ---- bookkeeping echoes the data
  VCHECK(ctx, pp.isInitialized() && pp.getNumSegments() == nseg && pp.getNumCoeffs() == ncoef && pp.getDegree() == ncoef - 1 &&
                  pp.getDimension() == DIM,
         "bookkeeping", "isInitialized/segments/coeffs/degree/dimension do not echo the inputs");
  VCHECK(ctx, pp.getBreakpoints() == m.b && pp.getStartTime() == m.b.front() && pp.getEndTime() == m.b.back() &&
                  pp.getDuration() == m.b.back() - m.b.front(),
         "bookkeeping", "breakpoints/start/end/duration do not echo the inputs");
  VCHECK(ctx, pp.getCoefficients().rows() == C.rows() && (pp.getCoefficients().array() == C.array()).all(), "bookkeeping",
         "getCoefficients differs from the input");
  {
    int s = t.range(0, nseg - 1);
    auto sg = pp[s];
    auto sa = pp.at(s);
    auto it = pp.begin() + s;
    VCHECK(ctx, sg.index() == s && sa.index() == s && (*it).index() == s && it->index() == s && sg.startTime() == m.b[s] &&
                    sg.endTime() == m.b[s + 1] && sg.duration() == m.b[s + 1] - m.b[s] && (pp.end() - pp.begin()) == nseg,
           "segment-accessors", "Segment index/startTime/endTime/duration or iterator distance wrong at segment " << s);
    auto blk = sg.getCoeffs();
    bool okc = blk.rows() == ncoef && blk.cols() == DIM;
    for (int k = 0; okc && k < ncoef; ++k) for (int d = 0; d < DIM; ++d) if (!same_val(blk(k, d), m.c(s, k, d))) okc = false;
    VCHECK(ctx, okc, "segment-accessors", "Segment::getCoeffs does not echo segment " << s);
  }
  {
    // every way of walking the pieces visits piece i as the i-th one: prefix and postfix increment (the VALUE of `it++` is the
    // old position), range-for, prefix and postfix decrement
    int i = 0; bool ok = true; const char* how = "";
    for (auto it = pp.begin(); it != pp.end(); ++it, ++i) if ((*it).index() != i) { ok = false; how = "prefix ++"; }
    if (i != nseg) { ok = false; how = "prefix ++ (count)"; }
    i = 0;
    for (auto it = pp.begin(); it != pp.end(); ++i) { auto sgi = *it++; if (sgi.index() != i) { ok = false; how = "value of postfix ++"; } }
    if (i != nseg) { ok = false; how = "postfix ++ (count)"; }
    i = 0;
    for (auto sgi : pp) { if (sgi.index() != i) { ok = false; how = "range-for"; } ++i; }
    if (i != nseg) { ok = false; how = "range-for (count)"; }
    i = nseg;
    for (auto it = pp.end(); it != pp.begin();) { --it; --i; if (it->index() != i) { ok = false; how = "prefix --"; } }
    i = nseg - 1;
    for (auto it = pp.begin() + (nseg - 1);; --i) { auto old = it--; if ((*old).index() != i) { ok = false; how = "value of postfix --"; } if (i == 0) break; }
    VCHECK(ctx, ok, "segment-iteration", "walking the pieces by " << how << " does not visit piece i as the i-th one (" << nseg << " pieces)");
  }

  // ---- query history
  int Q = t.rangez(1, 24, 6);
  int hint = 0;                     // carried over between hinted calls
  bool nt_knot = false, nt_stale = false;
  std::map<int, PP> dcache;         // derivative trajectories built on demand
  double t_prev = m.b[0];
  int qdesc = 0;
  if (ctx.want_desc) ctx.desc << ", \"queries\": [";
  for (int q = 0; q < Q; ++q) {
    // time selector
    int tc = t.pickw({4, 3, 3, 4, 1, 1, 1, 3});
    double tq = 0;
    const char* tcls = "";
    int j = t.range(0, nseg);
    switch (tc) {
      case 0: tq = m.b[j]; tcls = "on-breakpoint"; break;
      case 1: tq = std::nextafter(m.b[j], INFINITY); tcls = "breakpoint+1ulp"; break;
      case 2: tq = std::nextafter(m.b[j], -INFINITY); tcls = "breakpoint-1ulp"; break;
      case 3: {
        int s = std::min(j, nseg - 1);
        double f = t.range(1, 63) / 64.0;
        tq = m.b[s] + f * (m.b[s + 1] - m.b[s]);
        tcls = "interior";
        break;
      }
      case 4: tq = m.b.front() - (1 + t.range(0, 1000)) / 8.0; tcls = "before-first"; break;
      case 5: tq = m.b.back() + (1 + t.range(0, 1000)) / 8.0; tcls = "after-last"; break;
      case 7: {  // a small offset (2^-10 .. 2^-50 relative, both signs) from any breakpoint, incl. just outside the first and the last one
        double off = pow2i(-t.range(10, 50)) * (1.0 + std::fabs(m.b[j])) * (1 + t.range(0, 6));
        tq = t.flag() ? m.b[j] + off : m.b[j] - off;
        tcls = "breakpoint+-small-offset";
        break;
      }
      default: {
        static const double far[] = {1e6, -1e6, 1e12, -1e12, 1e300, -1e300};
        tq = far[t.range(0, 5)]; tcls = "far-outside";
        break;
      }
    }
    if (tc <= 2 && j >= 1 && j <= nseg - 1) nt_knot = true;
    int k = t.rangez(0, ncoef + 3, 0);
    // hint selector
    int hc = t.pickw({5, 3, 1, 1, 1, 1, 1});
    const char* hcls = "carried";
    switch (hc) {
      case 0: break;  // carried over from the previous hinted call (possibly stale)
      case 1: hint = t.range(0, nseg - 1); hcls = "valid"; break;
      case 2: hint = -1; hcls = "-1"; break;
      case 3: hint = INT_MIN; hcls = "INT_MIN"; break;
      case 4: hint = INT_MAX; hcls = "INT_MAX"; break;
      case 5: hint = nseg; hcls = "n"; break;
      default: hint = nseg + 1; hcls = "n+1"; break;
    }
    ctx.label(std::string("t:") + tcls);
    ctx.label(std::string("hint:") + hcls);

    int sref = 0;
    ld val[DIM], asum[DIM];
    model_eval(m, tq, k, &sref, val, asum);
    if (k < ncoef && hint != sref) nt_stale = true;
    int hint_in = hint;
    if (ctx.want_desc && qdesc < 8) {
      ctx.desc << (qdesc ? ", " : "") << "{\"t\": \"" << hexd(tq) << "\", \"class\": \"" << tcls << "\", \"k\": " << k << ", \"hint_in\": "
               << hint_in << ", \"piece\": " << sref << "}";
      ++qdesc;
    }

    // route a: plain
    VectorType va = pp.evaluate(tq, k);
    // (1) exactness against R1
    bool overflow = false;
    for (int d = 0; d < DIM; ++d) if (!(asum[d] < (ld)DBL_MAX / 4)) overflow = true;
    if (!overflow) {
      for (int d = 0; d < DIM; ++d) {
        ld g = horner_gamma(ncoef, asum[d]) + (ld)DBL_MIN * 16;  // + denormal floor
        ld err = fabsl((ld)va(d) - val[d]);
        if (asum[d] > 0) ctx.maxi("value_err_over_gamma", (double)(err / g));
        VCHECK(ctx, err <= g, k >= ncoef ? "zero-beyond-degree" : "value",
               "evaluate(t=" << hexd(tq) << ", k=" << k << ")[" << d << "]=" << g17(va(d)) << " but piece " << sref << " (model) gives "
                             << lg(val[d]) << " (|err|=" << lg(err) << " > gamma=" << lg(g) << "); " << tname << " segments=" << nseg << " ncoef=" << ncoef);
      }
    } else ctx.label("value-check-skipped-overflow");
    if (k >= ncoef) VCHECK(ctx, (va.array() == 0.0).all(), "zero-beyond-degree", "evaluate with k=" << k << " >= ncoef=" << ncoef << " is not exactly zero");

    // route b: hinted
    VectorType vb = pp.evaluate(tq, &hint, k);
    VCHECK(ctx, vec_same(va, vb), "route-hinted",
           "hinted evaluate (hint_in=" << hint_in << ") differs from plain at t=" << hexd(tq) << " k=" << k << ": " << vec_str(vb) << " vs " << vec_str(va)
                                      << " (model piece " << sref << "); " << tname << " segments=" << nseg);
    if (k < ncoef)
      VCHECK(ctx, hint == sref, "hint-postcondition",
             "after hinted evaluate(t=" << hexd(tq) << ", k=" << k << ") with incoming hint " << hint_in << " the hint is " << hint
                                        << " but the piece containing t is " << sref << "; " << tname << " segments=" << nseg);
    else hint = hint_in;  // the statement says nothing about the hint when k exceeds the degree: keep the model's own value
    // null hint pointer = plain
    {
      VectorType vn = pp.evaluate(tq, (int*)nullptr, k);
      VCHECK(ctx, vec_same(va, vn), "route-hinted", "evaluate with null hint pointer differs from plain at t=" << hexd(tq) << " k=" << k);
    }
    // route c: batch
    {
      std::vector<double> ts = {tq, t_prev, m.b[0]};
      auto res = pp.evaluate(ts, k);
      VCHECK(ctx, res.size() == 3 && vec_same(res[0], va) && vec_same(res[1], pp.evaluate(t_prev, k)) && vec_same(res[2], pp.evaluate(m.b[0], k)),
             "route-batch", "batch evaluate differs from pointwise at t=" << hexd(tq) << " k=" << k);
    }
    // route d: Deriv enum overloads
    if (k <= 6) {
      Deriv dk = static_cast<Deriv>(k);
      int h2 = hint_in;
      VectorType v1 = pp.evaluate(tq, dk);
      VectorType v2 = pp.evaluate(tq, &h2, dk);
      std::vector<double> ts = {tq};
      auto v3 = pp.evaluate(ts, dk);
      VCHECK(ctx, vec_same(va, v1) && vec_same(va, v2) && v3.size() == 1 && vec_same(va, v3[0]), "route-enum",
             "Deriv-enum overload differs from integer overload at t=" << hexd(tq) << " k=" << k);
      if (k < ncoef) VCHECK(ctx, h2 == sref, "hint-postcondition", "enum hinted overload leaves hint " << h2 << " instead of " << sref);
      if (k == 0) {
        VCHECK(ctx, vec_same(va, pp.evaluate(tq)) && vec_same(va, pp.evaluate(ts)[0]), "route-enum", "default-argument overloads differ at t=" << hexd(tq));
      }
    }
    // route e: per-segment local time via indexing / at / iteration
    {
      double u = tq - m.b[sref];
      VectorType e1 = pp[sref].evaluate(u, k);
      VectorType e2 = pp.at(sref).evaluate(u, k);
      auto it = pp.begin() + sref;
      VectorType e3 = (*it).evaluate(u, k);
      VectorType e4 = it->evaluate(u, k);
      VCHECK(ctx, vec_same(va, e1) && vec_same(va, e2) && vec_same(va, e3) && vec_same(va, e4), "route-segment",
             "segment-local evaluate on piece " << sref << " (u=" << hexd(u) << ") differs from global evaluate at t=" << hexd(tq) << " k=" << k << ": "
                                                << vec_str(e1) << " vs " << vec_str(va) << "; " << tname << " segments=" << nseg);
      if (k <= 6) VCHECK(ctx, vec_same(va, pp[sref].evaluate(u, static_cast<Deriv>(k))), "route-segment", "Segment enum overload differs");
    }
    // route f: derivative trajectory
    {
      int kd = t.range(0, k);  // derivative(kd) evaluated at order k-kd
      auto itd = dcache.find(kd);
      if (itd == dcache.end()) itd = dcache.emplace(kd, pp.derivative(kd)).first;
      const PP& dp = itd->second;
      VCHECK(ctx, dp.isInitialized() && dp.getNumSegments() == nseg && dp.getBreakpoints() == m.b, "route-derivative",
             "derivative(" << kd << ") is not initialised on the same breakpoints");
      VCHECK(ctx, dp.getNumCoeffs() == (kd < ncoef ? ncoef - kd : 1), "route-derivative", "derivative(" << kd << ") has " << dp.getNumCoeffs() << " coefficients");
      VectorType vd = dp.evaluate(tq, k - kd);
      if (kd == k || kd == 0) {
        VCHECK(ctx, vec_same(va, vd), "route-derivative",
               "derivative(" << kd << ").evaluate(t," << (k - kd) << ") differs from evaluate(t," << k << ") at t=" << hexd(tq) << ": " << vec_str(vd) << " vs " << vec_str(va));
      } else if (!overflow) {
        for (int d = 0; d < DIM; ++d) {
          ld g = 2 * horner_gamma(ncoef, asum[d]) + (ld)DBL_MIN * 16;
          VCHECK(ctx, fabsl((ld)vd(d) - val[d]) <= g, "route-derivative",
                 "derivative(" << kd << ").evaluate(t," << (k - kd) << ")[" << d << "]=" << g17(vd(d)) << " vs model " << lg(val[d]) << " at t=" << hexd(tq));
        }
      }
      int hd = hint_in;
      VectorType vh = dp.evaluate(tq, &hd, k - kd);
      VCHECK(ctx, vec_same(vd, vh), "route-derivative", "hinted evaluation of the derivative trajectory differs from plain");
    }
    t_prev = tq;
  }
  if (ctx.want_desc) ctx.desc << "]";
  if (nt_knot) ctx.label("nt:knot-query");
  if (nt_stale) ctx.label("nt:stale-hint");
  ctx.nontrivial = nt_knot && nt_stale;
}

void check(Tape& t, Ctx& ctx) {
  constexpr int D = VDIM;
  int ty = t.range(0, 4);
  switch (ty) {
    case 0: run_case<PPolyND<D>, D, 0>(t, ctx, "dynamic"); break;
    case 1: run_case<PPolyND<D, 4>, D, 4>(t, ctx, "fixed4"); break;
    case 2: run_case<PPolyND<D, 6>, D, 6>(t, ctx, "fixed6"); break;
    case 3: run_case<PPolyND<D, 8>, D, 8>(t, ctx, "fixed8"); break;
    default: run_case<PPolyND<D, 12>, D, 12>(t, ctx, "fixed12"); break;
  }
}

bool selftest(std::string& msg) {
  // R1 Horner vs explicit power sums
  double c[7] = {1.5, -2.25, 0.125, 3.0, -0.75, 0.5, 2.0};
  for (int k = 0; k < 9; ++k)
    for (ld u : {0.0L, 0.37L, -1.9L, 12.5L}) {
      RefVal r = ref_poly_eval([&](int n) { return c[n]; }, 7, u, k);
      ld p = ref_poly_powersum([&](int n) { return c[n]; }, 7, u, k);
      if (fabsl(r.value - p) > 1e-15L * (r.abssum + 1e-30L)) { msg = "R1 Horner disagrees with power sum"; return false; }
    }
  // model seg(): half-open pieces
  PPModel<1> m; m.b = {0, 1, 2}; m.ncoef = 1; m.rows.resize(2);
  if (m.seg(-1) != 0 || m.seg(0) != 0 || m.seg(1) != 1 || m.seg(std::nextafter(1.0, 0.0)) != 0 || m.seg(2) != 1 || m.seg(5) != 1) { msg = "model seg() wrong"; return false; }
  return true;
}

Registrar reg({"C03", "PPolyND dim=" + std::to_string(VDIM), 1500, 0, check, selftest});

}  // namespace c03
