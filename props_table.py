"""props_table.py - which binaries exist, and which jobs each property runs per tier."""

TARGETS = {}
PROPS = {}
_ORDER = ["C%02d" % i for i in range(1, 21)]


def prop_index(p):
    return _ORDER.index(p) if p in _ORDER else 99


def T(name, src, defs=(), san="asan", selftest=False, libs=(), cflags=()):
    TARGETS[name] = {"src": src, "defs": list(defs), "san": san, "selftest": selftest, "libs": list(libs), "cflags": list(cflags)}


def split(target, cases, workers, prop=None, max_size=100, enum=False, timeout=None):
    """`workers` rapidcheck processes on the same target, each with its own seed and cases//workers cases"""
    out = []
    for w in range(workers):
        j = {"target": target, "cases": max(1, cases // workers), "max_size": max_size, "worker": w, "workers": workers}
        if prop:
            j["prop"] = prop
        if timeout:
            j["timeout"] = timeout
        out.append(j)
    return out


def prop_jobs(p, tier):
    return PROPS[p]["jobs"](tier)


def prop_targets(p, tier):
    return list(dict.fromkeys(j["target"] for j in prop_jobs(p, tier)))


# ---------------------------------------------------------------------------------------------
# C17 time maps
T("timemap", "timemap_props.cpp", selftest=True)
PROPS["C17"] = {
    "jobs": lambda tier: split("timemap", 320000, 16) if tier == "quick" else split("timemap", 64000000, 32),
    "floor_quick": 100000, "floor_thorough": 20000000,
    "rule": "each case draws 6 optimisation variables tau (classes: 0/denormal, +-2^k, k/64, decimal up to 1e6, log-uniform small, "
            "extremes; each shifted by -3..3 ulp), a gap for the strict-increase pair, incoming gradients, a duration T in [1e-6,1e6] and a "
            "step 2^-k for the C1 test at the switch, all decoded from a rapidcheck-generated word tape; non-trivial = some |tau| < 2^-20, "
            "or a neighbour pair / increase pair straddling tau=0, or T within 2^-20 of 1; distinct = distinct 64-bit hash of the consumed tape",
    "tolerances": {"toTime": "8 eps relative to long-double closed form", "round trips": "64 eps", "backward": "16 eps relative",
                   "backward vs FD of toTime": "1e-6 relative + Richardson/rounding slack (R5)"},
    "assumptions": ["IEEE-754 double, round-to-nearest, no -ffast-math (harness build flags)",
                    "long double (x87 80-bit) closed forms T(tau), T'(tau) are the reference; validated against their own finite differences in --selftest"],
}

# ---------------------------------------------------------------------------------------------
# C03 piecewise-polynomial evaluation
C03_DIMS = [1, 2, 3, 6]
for d in C03_DIMS:
    T("ppoly_c03_d%d" % d, "ppoly_c03.cpp", defs=["VDIM=%d" % d], selftest=(d == 3))


def _c03_jobs(tier):
    per = 10000 if tier == "quick" else 500000
    out = []
    for d in C03_DIMS:
        out += split("ppoly_c03_d%d" % d, per, 4)
    return out


PROPS["C03"] = {
    "jobs": _c03_jobs,
    "floor_quick": 20000, "floor_thorough": 1000000,
    "rule": "a case = container type (dynamic, fixed 4/6/8/12) x dimension (one binary each for 1,2,3,6) x segment count ({1,2,3,31,32,33,64} or 1..80) "
            "x coefficient count 1..12 x strictly increasing breakpoints (gaps 1 ulp, 2 ulp, 2^-20, O(1), 1e6; starts up to +-1e9) x coefficients, "
            "followed by a history of 1..24 queries (t on a breakpoint / +-1 ulp / interior / before / after / far outside up to 1e300; derivative order 0..n+3; "
            "hint carried over or set to valid, -1, INT_MIN, INT_MAX, n, n+1), every query evaluated through all routes; non-trivial = at least one query on or within "
            "1 ulp of an INTERIOR breakpoint and at least one hinted query whose incoming hint differs from the piece containing t; distinct = hash of consumed tape",
    "tolerances": {"value": "R1 running bound gamma = 2(n+1) 2^-52 sum|terms| (no free constant)", "routes": "bitwise identical (NaN==NaN, +0==-0)"},
    "assumptions": ["breakpoints strictly increasing (with equal breakpoints the half-open piece is empty)", "derivative order >= 0",
                    "value check skipped (counted) when the reference magnitude exceeds DBL_MAX/4 (t = +-1e300 queries); route identity still checked there"],
}

# ---------------------------------------------------------------------------------------------
# C11 lazy caches and copies
C11_DIMS = [1, 3]
for d in C11_DIMS:
    T("ppoly_c11_d%d" % d, "ppoly_c11.cpp", defs=["VDIM=%d" % d])


def _c11_jobs(tier):
    per = 12000 if tier == "quick" else 600000
    out = []
    for d in C11_DIMS:
        out += split("ppoly_c11_d%d" % d, per, 8)
    return out


PROPS["C11"] = {
    "jobs": _c11_jobs,
    "floor_quick": 12000, "floor_thorough": 500000,
    "rule": "a case is either (3/4) an operation sequence of 1..40 ops over a pool of 4 heap-allocated PPolyND instances of one container type "
            "(dynamic, fixed 4/8/12): update with same sizes / different segment count / different coefficient count / rejected input, evaluate (plain or hinted) "
            "at orders 0..n+2, copy-construct, copy-assign (incl. self), derivative(k) into the pool, destroy - with every live instance probed after every op against "
            "a fresh object built from the model's data; or (1/4) a cubic/quintic/septic spline whose exposed trajectory (by reference) and copies (by value, by assignment) "
            "are evaluated, the spline updated through either overload, and both probed again, for 1..6 rounds. non-trivial = an order evaluated on an instance, then that instance "
            "mutated, then the same order probed again; or a copy probed after its source was mutated/destroyed; or a completed spline round. distinct = hash of consumed tape",
    "tolerances": {"vs fresh object": "bitwise", "vs R1": "gamma running bound"},
    "assumptions": ["evaluation of an uninitialised (rejected) object is not probed; only its isInitialized()/getNumSegments()"],
}

# ---------------------------------------------------------------------------------------------
# C20 sampling / arc length / factories
T("ppoly_c20_d2", "ppoly_c20.cpp", defs=["VDIM=2"], selftest=True)
T("ppoly_c20_d1", "ppoly_c20.cpp", defs=["VDIM=1"])
PROPS["C20"] = {
    "jobs": lambda tier: split("ppoly_c20_d2", 48000 if tier == "quick" else 2400000, 12) + split("ppoly_c20_d1", 16000 if tier == "quick" else 800000, 4),
    "floor_quick": 30000, "floor_thorough": 1500000,
    "rule": "a case is (5/10) a (start,end,dt) triple - classes: dt dyadic and dividing exactly, dt=(end-start)/k in floating point (nearly divides), decimal steps, step larger than "
            "the interval, interval = m*dt + remainder around the 1e-6 append threshold, zero length, generic; |start|<=1e6, <=2e5 steps, optionally a sub-range of a small trajectory - "
            "checked against the sequence contract and batch-vs-pointwise evaluation; (2/10) an arc-length case on a cubic/quintic/septic spline or a hand-built C1 Hermite PPolyND, "
            "whole range or sub-range, at dt and dt/2; (3/10) a factory case (zero / constant on generated breakpoints, container dynamic/fixed4/fixed8, coefficient count 1..12) probed at "
            "generated times/orders/hints. non-trivial = interval not a multiple of dt or within 4 ulp of one (sequence), every length case, factory cases with >=2 segments",
    "tolerances": {"grid": "2(i+1) ulp(|start|+|end|+dt)", "end": "1e-6 (+1e-9 guard band)", "length vs Riemann model": "4e-16 (n+16) relative",
                   "length vs true arc length": "max step * integral |x''| (Gauss-Legendre, two levels agreeing) + 1e-9(1+L)"},
    "assumptions": ["end >= start, dt >= 1e-4, at most 2e5 steps, |t| <= 1e6+4000 (beyond ~1e9 one ulp exceeds the 1e-6 of the contract)",
                    "length bound is judged only when the two quadrature levels agree (counted otherwise)"],
}

# ---------------------------------------------------------------------------------------------
# C16 validity verdicts
C16_DIMS = [1, 2, 3]
for d in C16_DIMS:
    T("opt_c16_d%d" % d, "opt_c16.cpp", defs=["VDIM=%d" % d])


def _c16_jobs(tier):
    per = 16000 if tier == "quick" else 3200000
    out = []
    for d in C16_DIMS:
        out += split("opt_c16_d%d" % d, per, 4 if tier == "quick" else 8)
        # exhaustive single placements: every configuration once (quick) or 16 data sets per configuration (thorough)
        tot = 3 * 3 * sum(1 + N + (N + 1) * d + 6 * d for N in range(1, 5))
        reps = 1 if tier == "quick" else 16
        j = split("opt_c16_d%d" % d, tot * reps, 1, prop="C16e")
        out += j
    return out


PROPS["C16"] = {
    "jobs": _c16_jobs,
    "floor_quick": 30000, "floor_thorough": 6000000,
    "rule": "three kinds of case, dimension 1..3 (one binary each): (a) a history of 1..6 initialisations on ONE optimizer (cubic/quintic/septic): 0..5 durations from a palette "
            "around the 1 ms threshold (1e-3, its two neighbours, 1e-3(1+-2^-30), 0, negative, denormal, 1e300, NaN, +-Inf), waypoint rows N+1 / 0 / N / N+2, start time finite or non-finite, "
            "0..3 non-finite values placed in waypoints and the six boundary vectors, through the durations overload, the time-point overload (oracle applied to the rounded differences) "
            "or an empty time-point vector; after each one the return value, isValid, operator bool, getLastError, checkValidity(&msg) and checkValidity() are compared with an independently "
            "written predicate; (b) PPolyND construction/update with 0/1/2.. breakpoints, row counts off by +-1 and +-one segment, coefficient counts up to ORDER+3, on dynamic/fixed4/fixed8, and "
            "at(i) for i in {INT_MIN,-1,0,n-1,n,n+1,INT_MAX,random}; (c) [C16e, enumerated] every single placement of NaN/+Inf/-Inf in every input field for N=1..4 x 3 orders. "
            "non-trivial = exactly one offending field, or a duration within 2 ulp / 2^-30 of the threshold, or a rejected PPolyND input, or any single-placement case",
    "exhaustive_note": "the C16e sub-space (order x N in 1..4 x field x {NaN,+Inf,-Inf}) is enumerated completely on every run; data in the other fields are generated",
    "assumptions": ["after an empty time-point vector only the return value, the flag and the message are judged (the statement says nothing about the stored state)",
                    "dynamic-order PPolyND with 0 coefficients and 0 rows is not judged (the statement does not cover it)"],
}

# ---------------------------------------------------------------------------------------------
# forward-construction properties of the splines: C01 C02 C04 C18 share one binary per dimension
ALL_DIMS = list(range(1, 11))
for d in ALL_DIMS:
    T("spline_fwd_d%d" % d, "spline_fwd.cpp", defs=["VDIM=%d" % d], selftest=(d in (1, 3)))

FWD_QUICK_DIMS = {"C01": ALL_DIMS, "C02": [1, 2, 3, 4, 7, 10], "C04": [1, 2, 3, 5, 8], "C18": [1, 3, 4, 6]}


def _fwd_jobs(prop, per_quick, per_thorough, extra=None):
    def jobs(tier):
        dims = FWD_QUICK_DIMS[prop] if tier == "quick" else ALL_DIMS
        per = per_quick if tier == "quick" else per_thorough
        out = []
        for d in dims:
            w = max(1, 16 // len(dims)) if tier == "quick" else 2
            out += split("spline_fwd_d%d" % d, per, w)
        if extra:
            out += extra(tier, dims)
        return out
    return jobs


_S4 = ("durations T_i = sigma*rho_i with sigma in [0.1,10] s (log-uniform, 8 steps/octave) and max/min ratio <= 1000 (cubic) / 20 (quintic) / 4 (septic) "
       "[ratio 1, the domain edge, or log-uniform in between; shapes: all equal, nearly equal (differences of 2^-18..2^-45 relative), one short among long, one long among short, alternating, geometric ramp, log-uniform with both extremes present]; "
       "N: 1,2,3 over-represented, 4..12 common, 13..40 occasional; waypoints k/64*10^m (m in -3..4, optional common offset up to 1e6, occasional repeated waypoint); boundary derivatives zero / single "
       "non-zero / generic, commensurate with the motion; start time in {0, k/8, 1e3 k, 1e6 k, 1e9}")

PROPS["C01"] = {
    "jobs": _fwd_jobs("C01", 12000, 300000),
    "floor_quick": 100000, "floor_thorough": 2000000,
    "rule": "order (cubic/quintic/septic) x dimension 1..10 (one binary each) x " + _S4 + "; 1/4 of the cases use exactly representable (dyadic) times; BoundaryConditions built by field assignment or the "
            "2-/4-/6-argument constructor; route in {ctor(durations,start), ctor(time points), default+update(durations), default+update(time points), update of an object that held and answered queries for "
            "a different problem}. non-trivial = N >= 2, or N = 1 with a non-zero boundary derivative; distinct = hash of consumed tape",
    "tolerances": {"interpolation / boundary states": "1e-12 cubic / 1e-11 quintic / 1e-9 septic relative to max(data magnitude, Horner abs-sum of the segment) [+ |v| ulp(t) for evaluation at global times]; >= 400x the worst residual measured over 3e6 cases",
                   "time specifications": "bitwise for dyadic times; 1e-8 normalised otherwise when ulp(t_max)/T_min <= 1e-12", "knot times": "2(i+2) ulp(t_max)"},
    "assumptions": ["finite inputs with |value| <= ~1e10; values near overflow are not explored", "well-scaled duration domain of DESIGN.md s4"],
}


def _c02_extra(tier, dims):
    out = []
    for d in dims:
        reps = 2 if tier == "quick" else 40
        out += split("spline_fwd_d%d" % d, 480 * reps, 1, prop="C02e")
    return out


PROPS["C02"] = {
    "jobs": _fwd_jobs("C02", 7200, 200000, _c02_extra),
    "floor_quick": 15000, "floor_thorough": 1000000,
    "rule": "as C01 (" + _S4 + "), constructed through either time specification; plus [C02e] the enumerated structures order x N in 1..10 x {all equal, one short among long at every position, "
            "one long among short at every position, alternating (2 phases), geometric ramp (2 directions)} at the edge of the well-scaled ratio, generated data per structure. Each case is decided by "
            "(A) coefficient-wise comparison with a dense long-double solve of the optimality conditions (N <= 24), (B) scaled jumps of derivatives 1..2s-2 at interior knots, (C) the first variation along "
            "generated admissible perturbations with non-zero derivatives at interior knots. non-trivial = N >= 2",
    "exhaustive_note": "the C02e sub-space (480 structures per dimension) is enumerated completely on every run",
    "tolerances": {"coefficients (normalised)": "1e-10 cubic / 1e-8 quintic / 1e-7 septic", "jumps (scaled)": "1e-10 / 1e-7 / 1e-5", "first variation (normalised)": "1e-8"},
    "assumptions": ["'all sufficiently smooth curves' is decided through the optimality conditions (uniqueness) and a finite family of perturbations",
                    "reference solve self-checks its residual (<= 1e-15 scaled); cases failing that are counted oracle-inconclusive"],
}

PROPS["C04"] = {
    "jobs": _fwd_jobs("C04", 36000, 600000),
    "floor_quick": 25000, "floor_thorough": 1000000,
    "rule": "order x dimension x N x durations sigma*rho in [1e-3,1e3] s at any ratio up to 1e4 (same shapes as s4) x data; the object is fresh or has answered getEnergy() for another problem and was then "
            "updated through either overload; 2/14 of the cases are closed-form anchors (one segment sampled from x = a t^s/s!; N segments sampled from a polynomial of degree < s). "
            "non-trivial = energy above 1e-6 of the sum of absolute terms (not a straight line) / non-zero a / N>=2 for the zero-energy anchor",
    "tolerances": {"energy": "1e-11 relative to the sum of absolute terms of the exact integral + |x^(s)(T)|^2 * 2 ulp(t_max) per segment (integration domain known to an ulp)",
                   "sum over dimensions": "1e-8 (well-scaled ratios only)", "anchors": "1e-9 relative / 1e-12 of the natural energy scale"},
    "assumptions": ["the exact integral is taken over the published pieces [b_i, b_i+1)"],
}

def _c18_extra(tier, dims):
    out = []
    for d in dims:
        out += split("spline_fwd_d%d" % d, 300 if tier == "quick" else 40000, 1 if tier == "quick" else 2, prop="C18g")
    return out


PROPS["C18"] = {
    "jobs": _fwd_jobs("C18", 40000, 800000, _c18_extra),
    "floor_quick": 25000, "floor_thorough": 1000000,
    "rule": "order x dimension (quick 1,3,4,6; thorough 1..10) x N in 2..40 x ratio in [1,100] (pinned 4,10,20,30,50,100 or log-uniform) x placement {single short among long at every position, single long among short, "
            "alternating, geometric ramp, log-uniform mix} x min T in [1e-3,1] s x data incl. non-zero boundary derivatives, start time 0. non-trivial = ratio >= 10 and N >= 3",
    "tolerances": {"scaled residual limit": "1e-3; scale = max(|lhs|,|rhs|, 1e-6 * largest magnitude of that derivative over all knots or |data|/Tmin^m)"},
    "assumptions": ["residuals are evaluated in long double from getCoefficients() with the input durations"],
}

# ---------------------------------------------------------------------------------------------
# gradient properties of the splines: C05 C06
for d in ALL_DIMS:
    T("spline_adj_d%d" % d, "spline_adj.cpp", defs=["VDIM=%d" % d], selftest=(d == 2))

ADJ_QUICK_DIMS = {"C05": [1, 2, 3, 4, 6, 8, 10], "C06": [1, 2, 3, 4, 5, 9]}


def _adj_jobs(prop, per_quick, per_thorough):
    def jobs(tier):
        dims = ADJ_QUICK_DIMS[prop] if tier == "quick" else ALL_DIMS
        per = per_quick if tier == "quick" else per_thorough
        out = []
        for d in dims:
            out += split("spline_adj_d%d" % d, per, 2)
        return out
    return jobs


PROPS["C05"] = {
    "jobs": _adj_jobs("C05", 2400, 100000),
    "floor_quick": 12000, "floor_thorough": 800000,
    "rule": "order x dimension (quick 1,2,3,4,6,8,10; thorough 1..10) x N (1,2,3 over-represented, up to 16) x " + _S4 + "; per case three upstream gradients from the classes {dense, single unit entry (any coefficient row), "
            "only the rows c_0..c_{s-1}, one segment's block, zero gdC with unit gdT, sparse c_0 rows}, each after a history of 0..3 earlier propagateGrad calls with unrelated gradients through both overloads interleaved with "
            "getEnergy/evaluate. Oracle: dense long-double Jacobian of (P,T,bc)->coefficients (R4), every output component compared. non-trivial = a unit-vector / low-rows / c_0-rows upstream gradient, or N <= 2",
    "tolerances": {"generic components": "1e-9 (cubic) / 1e-7 (quintic) / 1e-7 (septic) * sigma, sigma = |J|^T|G| (sum of absolute terms); with all-equal or nearly-equal durations 1e-9 / 1e-9 / 3e-8", "components vanishing by exact cancellation": "1e-12 (cubic) / 1e-11 (quintic) / 1e-10 (septic) of the natural magnitude of such an entry",
                   "linearity (power-of-two factors), history independence, overloads": "bitwise"},
    "assumptions": ["well-scaled duration domain of DESIGN.md s4", "reference Jacobian validated against central differences of the reference solve in --selftest"],
}
PROPS["C06"] = {
    "jobs": _adj_jobs("C06", 1800, 80000),
    "floor_quick": 8000, "floor_thorough": 500000,
    "rule": "order x dimension (quick 1,2,3,4,5,9; thorough 1..10) x N x " + _S4 + " with non-zero boundary derivatives forced in >= 75% of cases; checked: (i) partial gradients (both overloads, with dirty / wrongly sized output "
            "buffers) vs the exact derivative of the energy integral of the published coefficients, (ii) getEnergyGrad and its three parts vs the reference Jacobian applied to the reference partials at the reference minimiser "
            "(no library code), (iii) for 1/3 of the cases (N <= 8) central differences with Richardson extrapolation of the REPORTED getEnergy() w.r.t. every duration, waypoint coordinate and boundary-state component, "
            "(iv) propagateGrad(partials) vs the same reference. non-trivial = non-zero boundary derivatives and N >= 2",
    "tolerances": {"partials": "1e-11 of the sum of absolute terms", "totals (direct and propagated partials)": "1e-11 (cubic) / 1e-10 (quintic) / 1e-9 (septic) * sigma + structural-zero floor as C05", "finite differences": "1e-6 * sigma + 2|D(h/2)-D(h)| + (8 eps + order-specific solve noise) |E| / h"},
    "assumptions": ["well-scaled duration domain of DESIGN.md s4"],
}

# ---------------------------------------------------------------------------------------------
# relations between runs: C10 (spline part), C13, C14
for d in ALL_DIMS:
    T("spline_meta_d%d" % d, "spline_meta.cpp", defs=["VDIM=%d" % d])

META_QUICK_DIMS = {"C10": [1, 2, 3, 5], "C13": [2, 3, 4, 5, 8, 10], "C14": [1, 2, 3, 4, 6]}
OPT_C10_JOBS = []   # filled in further down (optimizer-workspace half of C10)


def _meta_jobs(prop, per_quick, per_thorough, extra=None):
    def jobs(tier):
        dims = META_QUICK_DIMS[prop] if tier == "quick" else [d for d in ALL_DIMS if not (prop == "C13" and d == 1)]
        per = per_quick if tier == "quick" else per_thorough
        out = []
        for d in dims:
            out += split("spline_meta_d%d" % d, per, 2)
        if extra:
            out += extra(tier)
        return out
    return jobs


PROPS["C10"] = {
    "jobs": _meta_jobs("C10", 3000, 150000, lambda tier: [dict(j, cases=j["cases"] * (1 if tier == "quick" else 50)) for j in OPT_C10_JOBS]),
    "floor_quick": 10000, "floor_thorough": 500000,
    "rule": "histories of 2..24 operations on ONE long-lived spline object per order and dimension (quick 1,2,3,5): update through either overload with N drawn from {1,2,3,4,5,8,12,16} (growing, shrinking, same size), "
            "interleaved with coefficient/knot-time reads, getEnergy, every energy-gradient getter, propagateGrad (both overloads, generated upstream gradients), evaluation at generated times/orders and trajectory copies; "
            "after every update a fresh object is built from the same latest inputs and every query must agree bitwise; repeated read-only queries must repeat bitwise. "
            "non-trivial = a query after a shrink (N decreased), or a propagate between two updates",
    "tolerances": {"reused vs fresh": "bitwise (NaN==NaN, +0==-0)"},
    "assumptions": ["fresh-vs-reused cannot see an error common to both (that is the job of C01..C06)", "harness built without -march=native/-ffast-math so that both objects run identical arithmetic"],
}
PROPS["C13"] = {
    "jobs": _meta_jobs("C13", 12000, 200000),
    "floor_quick": 10000, "floor_thorough": 500000,
    "rule": "order x D (quick 2,3,4,5,8,10; thorough 2..10) x N x " + _S4 + ", through either time specification; the D-dimensional spline is compared with the D one-dimensional splines built from its columns: "
            "coefficients, evaluations, propagated point/boundary gradients and energy gradients coordinate by coordinate, energy and duration gradients as sums over coordinates; then the same for a generated coordinate permutation. "
            "non-trivial = columns that differ from each other (1/8 of the cases replicate a column and are counted separately)",
    "tolerances": {"coefficients / evaluations": "1e-10 / 1e-8 / 1e-7 normalised (bitwise equality is counted, not required)", "gradients": "1e-7 of the largest entry of that kind + structural-zero floor", "energy": "1e-9 relative"},
    "assumptions": ["D = 1 is trivially true and not run"],
}
PROPS["C14"] = {
    "jobs": _meta_jobs("C14", 24000, 400000),
    "floor_quick": 12000, "floor_thorough": 500000,
    "rule": "order x dimension (quick 1,2,3,4,6) x N x " + _S4 + " (no common offset); one relation per case: start-time shift (also applied to an existing object via update with identical durations), translation "
            "(exactly representable data: bitwise; generic: tolerance), data scaling by 2^k (bitwise) or generic lambda, duration scaling by 2^k with rescaled boundary derivatives (bitwise) or generic mu, time reversal "
            "(evaluation of every derivative order at knots and interior points, energy, mirrored gradients). non-trivial = non-zero boundary derivatives (shift/translation: always; reversal: N >= 3 and asymmetric durations)",
    "tolerances": {"power-of-two relations, shift, dyadic translation": "bitwise", "generic relations": "1e-10/1e-8/1e-7 normalised coefficients, 1e-9..1e-8 relative energy", "reversal": "10x forward tolerance (1e-7 septic), gradients 1e-6 of the largest entry of that kind"},
    "assumptions": ["well-scaled duration domain of DESIGN.md s4"],
}

# ---------------------------------------------------------------------------------------------
# optimizer layout / copies: C09 (+C09h), C15 - one binary per (order, dimension)
OPT_ORDERS = [3, 5, 7]
for o in OPT_ORDERS:
    for d in (1, 2, 3):
        T("opt_layout_o%d_d%d" % (o, d), "opt_layout.cpp", defs=["VORDER=%d" % o, "VDIM=%d" % d])


def _c09_jobs(tier):
    out = []
    reps = 1 if tier == "quick" else 8
    for o in OPT_ORDERS:
        for d in (1, 2, 3):
            tgt = "opt_layout_o%d_d%d" % (o, d)
            out += split(tgt, 3072 * reps, 1 if tier == "quick" else 2, prop="C09")
            out += split(tgt, 600 if tier == "quick" else 60000, 1, prop="C09h")
    return out


PROPS["C09"] = {
    "jobs": _c09_jobs,
    "floor_quick": 27648, "floor_thorough": 200000,
    "rule": "[C09, enumerated] all 256 flag settings x 3 orders x N in 1..6 x dimension in {1,2,3} x {default maps, user time map + user spatial map whose per-point unconstrained dimension is DIM-1, DIM+1 or DIM (affine, sphere)} "
            "= 27648 configurations, each with generated reference problem (all six boundary fields non-zero, waypoints inside the image of the spatial map), generated order of configuration calls, either setInitState overload; "
            "checked: getDimension, every slot of generateInitialGuess, and - through the built-in workspace - durations, waypoints, boundary state and coefficients of the exposed spline for the initial guess and for a vector perturbed in every slot. "
            "[C09h] histories of 3..20 reconfigurations (new initial state with another N, flags, spatial map user/default, time map user/default) with the same checks after every query. "
            "non-trivial = at least one flag set (enumerated) / a reconfiguration between two queries (histories)",
    "exhaustive_note": "the C09 configuration space (flags x orders x N<=6 x dims 1..3 x 2 map modes) is enumerated completely on every run; data per configuration are generated",
    "tolerances": {"slots, decoded quantities, exposed-spline coefficients": "bitwise", "initial-guess round trip to the reference": "256 eps (durations), 1.6e-8 relative (waypoints through user maps)"},
    "assumptions": ["reference waypoints lie in the image of the user spatial map (a non-surjective map cannot round-trip arbitrary points)", "maps are user code and are used by the model as given"],
}


def _c15_jobs(tier):
    out = []
    per = 1400 if tier == "quick" else 40000
    for o in OPT_ORDERS:
        for d in (1, 2, 3):
            out += split("opt_layout_o%d_d%d" % (o, d), per, 1 if tier == "quick" else 2, prop="C15")
    return out


PROPS["C15"] = {
    "jobs": _c15_jobs,
    "floor_quick": 5000, "floor_thorough": 300000,
    "rule": "operation sequences of 3..24 ops over a pool of 4 heap-allocated optimizers instantiated with STATEFUL user map types (their default instances carry data, register their address and poison themselves on destruction): "
            "construct+initialise (default or user-supplied maps), change flags/weights, set/reset maps, evaluate (creates the built-in workspace), copy-construct (from an lvalue and from an rvalue), copy-assign (plain, from a temporary, "
            "chained, self-assignment, over an optimizer that owns a workspace), destroy, re-initialise, and spline copy/assign followed by update/destruction of the source. After every op every live optimizer is evaluated and compared bitwise "
            "with a freshly configured equivalent optimizer; the addresses of the map objects it called must lie inside the optimizer itself (default maps) or be the user's objects; exposed splines of distinct optimizers must be distinct objects. "
            "non-trivial = a copy probed after its source was modified or destroyed, or a spline-copy step",
    "tolerances": {"copy vs freshly configured optimizer": "bitwise"},
    "assumptions": ["ASan (heap-allocated optimizers) turns a dangling default-map pointer into a use-after-free report; the address check catches sharing while the source is still alive"],
}

# ---------------------------------------------------------------------------------------------
# optimizer cost / gradient: C07 C08 (C19) - one binary per (order, dimension 1..4)
for o in OPT_ORDERS:
    for d in (1, 2, 3, 4):
        T("opt_cost_o%d_d%d" % (o, d), "opt_cost.cpp", defs=["VORDER=%d" % o, "VDIM=%d" % d], selftest=(d == 2))


def _opt_cost_jobs(prop, per_quick, per_thorough, dims):
    def jobs(tier):
        out = []
        for o in OPT_ORDERS:
            for d in dims:
                out += split("opt_cost_o%d_d%d" % (o, d), per_quick if tier == "quick" else per_thorough, 1 if tier == "quick" else 2, prop=prop)
        return out
    return jobs


def _c07_jobs(tier):
    out = _opt_cost_jobs("C07", 768, 768 * 24, (1, 2, 3, 4))(tier)
    out += _opt_cost_jobs("C07x", 500, 25000, (1, 2, 3, 4))(tier)
    return out


PROPS["C07"] = {
    "jobs": _c07_jobs,
    "floor_quick": 9216, "floor_thorough": 200000,
    "rule": "[enumerated] all 256 flag combinations x 3 map pairs (QuadInv+Identity, IdentityTime+Identity, user time map {exp, softplus, quadratic-inverse} + user spatial map with per-point unconstrained dimension DIM-1/DIM/DIM+1 "
            "(affine, sphere, identity)) for each of 3 orders x dimensions 1..4 (12 binaries); per configuration generated: N in 1..6, durations/waypoints/boundary state, start time, energy weight 0 or 2^k (scaled), K in {1,2,3,4,5,8,16,64}, "
            "time/waypoint/running cost programs depending on p,v,a,j,s, global time and segment index, decision vector = initial guess perturbed in every slot. Oracle: central differences with Richardson extrapolation of the cost RETURNED by "
            "evaluate for every coordinate and 3 generated directions. [C07x] non-FD cross-check for all three map pairs (generated flags, N, K, weight, costs; the maps' own backward rules are applied to the reference gradient): the gradient is re-derived from the reference minimiser (R2), the user's cost gradients at the reference states, "
            "the documented quadrature (incl. the drift and the explicit-time terms) and the reference Jacobian (R4), and compared entry by entry at 1e-7 of the condition-aware scale. "
            "non-trivial = a boundary-derivative or end-point flag set, K >= 2 and a running cost with non-zero explicit-time gradient",
    "exhaustive_note": "flags x map pairs (768 configurations per order and dimension) are enumerated completely on every run",
    "tolerances": {"finite differences": "1e-6 (|grad|inf + 1e-3 |cost|) + 2|D(h/2)-D(h)| + (8 eps + 1e-14/1e-13/1e-11) sum|cost pieces| / h, h = 2^-12; loose fraction reported"},
    "assumptions": ["smooth cost functors of the stated families; time enters the running cost only through t_global (documented protocol)", "durations kept >= 0.05 s", "duration ratio <= 8"],
}
PROPS["C08"] = {
    "jobs": _opt_cost_jobs("C08", 4800, 120000, (1, 2, 3)),
    "floor_quick": 9000, "floor_thorough": 400000,
    "rule": "order x dimension 1..3 x map pair x N in 1..6 x flags (any of 256) x start time (0, k/8, 100k) x K in {1,2,3,4,5,7,8,16,33,64} x energy weight x cost programs x decision vector; a recording running-cost functor logs every call. "
            "Checked: exactly N(K+1) calls, each node once, local time k/K*T_i, global time = start + elapsed durations + local time, position..snap handed over = the workspace trajectory's derivatives at that instant (long-double reference), "
            "returned cost = time cost + waypoint cost + trapezoid sum + weight*exact energy; two-cost overload = three-cost overload with zero waypoint cost (bitwise); integrating 1 gives the total duration and integrating t_global is exact, both for every K. "
            "non-trivial = K >= 2, N >= 2 and non-zero start time",
    "tolerances": {"cost": "1e-9 of the sum of absolute terms", "states": "4x running Horner bound", "times": "4 ulp"},
    "assumptions": ["serial executor (the recording functor is not thread-safe)"],
}

PROPS["C19"] = {
    "jobs": _opt_cost_jobs("C19", 700, 40000, (1, 2, 3)),
    "floor_quick": 5000, "floor_thorough": 300000,
    "rule": "order x dimension 1..3 x {default maps, user maps} x N in 1..5 x flags (any of 256) x K x energy weight x cost programs x eps in {1e-6 (default), 1e-5, 1e-4} x both overloads x own / built-in workspace. "
            "The documented procedure is re-enacted through plain evaluate calls (analytic gradient g, central differences n, resolution nu = |g-n|); the tolerance is generated relative to that resolution: max(1e-4, 20 nu) (the default 1e-4 whenever it is resolvable), 200 nu or 2000 nu. "
            "Checked: 'analytical' is bitwise the gradient of a direct evaluate, 'numerical' is the central difference of the optimizer's own cost, error_norm/rel_error are consistent, the workspace spline afterwards is bitwise the one a plain evaluate(x) leaves, "
            "correct functors are reported valid, and a functor with ONE wrong gradient component (time, waypoint or running cost; sized so that its effect on the checked gradient is 30x or 1000x the tolerance) is reported invalid. "
            "non-trivial = a derivative/end-point flag set, or a judged perturbed functor",
    "tolerances": {"numerical vs model": "1e-9 relative + 64 eps max|c| / eps_fd", "state after the check": "bitwise", "verdict": "judged when effect >= 10 tol (wrong) or for correct functors with tol >= 20 nu; in between not judged (counted)"},
    "assumptions": ["the rule 'valid <=> error_norm < tol' is deliberately not part of the oracle", "a supplied component that cannot influence the decision vector (e.g. gradient w.r.t. an unflagged end point) is invisible to any self-check and is not judged",
                    "default (eps,tol) on problems whose gradients are too large for a 1e-4 absolute tolerance is outside the judged domain (DESIGN s8, O2)"],
}

# ---------------------------------------------------------------------------------------------
# schedules / races / workspace reuse: C12 (+C12r under TSan), C10o
for o in OPT_ORDERS:
    T("opt_sched_o%d_d2" % o, "opt_sched.cpp", defs=["VORDER=%d" % o, "VDIM=2"], cflags=["-fopenmp"], libs=["-fopenmp"])
    T("opt_race_o%d_d2" % o, "opt_sched.cpp", defs=["VORDER=%d" % o, "VDIM=2", "VRACE=1"], san="tsan", libs=["-pthread"])
T("opt_sched_o5_d3", "opt_sched.cpp", defs=["VORDER=5", "VDIM=3"], cflags=["-fopenmp"], libs=["-fopenmp"])
T("opt_sched_noomp_o5_d2", "opt_sched.cpp", defs=["VORDER=5", "VDIM=2"])   # built WITHOUT -fopenmp: the executor's fallback branch
for o in OPT_ORDERS:
    OPT_C10_JOBS.extend(split("opt_sched_o%d_d2" % o, 400, 1, prop="C10o"))


def _c12_jobs(tier):
    out = []
    for o in OPT_ORDERS:
        out += split("opt_sched_o%d_d2" % o, 1200 if tier == "quick" else 60000, 2 if tier == "quick" else 3, prop="C12")
        out += split("opt_race_o%d_d2" % o, 240 if tier == "quick" else 12000, 2 if tier == "quick" else 2, prop="C12r")
    out += split("opt_sched_o5_d3", 600 if tier == "quick" else 30000, 1, prop="C12")
    out += split("opt_sched_noomp_o5_d2", 300 if tier == "quick" else 15000, 1, prop="C12")
    return out


PROPS["C12"] = {
    "jobs": _c12_jobs,
    "floor_quick": 4000, "floor_thorough": 200000,
    "rule": "[schedules, ASan build] order x N in 1..8 x flags x K x energy weight x cost programs with explicit time dependence: the serial result is compared bitwise (cost, gradient, workspace spline) with EVERY permutation of the segment order for N <= 5 "
            "(1+2+6+24+120 schedules), generated permutations above, std::thread executors with generated partitions into 1..8 chunks (incl. empty and singleton chunks) over generated orders, and the bundled OpenMPExecutor with 1/2/3/8 threads. "
            "[races, TSan build, C12r] 2..8 threads start together on ONE configured optimizer (freshly configured, copied, or re-flagged just before; with no prior single-threaded call or after getDimension / generateInitialGuess / evaluate), each with its own workspace "
            "and its own decision vector (differing also in the boundary-derivative block), inner executor serial or threaded; any ThreadSanitizer report is a violation, and every thread's result must equal bitwise the same call made sequentially afterwards. "
            "non-trivial = N >= 2 (schedules) / no prior single-threaded call (races)",
    "tolerances": {"all comparisons": "bitwise"},
    "assumptions": ["ThreadSanitizer observes the executions it is given; it reports unsynchronised conflicting accesses without needing the unlucky interleaving, but cannot prove absence"],
}

# ---------------------------------------------------------------------------------------------
# libFuzzer targets for the discrete-structure properties (same check functions, bytes -> words)
FUZZ = {"C03": ("fuzz_c03", 3, 3, "ppoly_c03_d3", 1500), "C11": ("fuzz_c11", 11, 3, "ppoly_c11_d3", 3000),
        "C16": ("fuzz_c16", 16, 2, "opt_c16_d2", 512), "C20": ("fuzz_c20", 20, 2, "ppoly_c20_d2", 256)}
for _p, (_t, _n, _d, _rt, _len) in FUZZ.items():
    T(_t, "fuzz_ppoly.cpp", defs=["FUZZ_PROP=%d" % _n, "VDIM=%d" % _d], san="fuzz")


def fuzz_jobs(p, tier):
    t, n, d, rt, ln = FUZZ[p]
    runs = 0 if tier == "quick" else (100000 if p == "C11" else 200000)   # C11 cases are histories of up to 6 rounds: ~250 executions/s
    k = 1 if tier == "quick" else 8
    return [{"target": t, "fuzz": True, "prop": p, "runs": runs, "replay_target": rt, "corpus": "corpus/%s" % p, "max_len": 4 * ln, "cases": 0} for _ in range(k)]


for _p in FUZZ:
    _old = PROPS[_p]["jobs"]
    PROPS[_p]["jobs"] = (lambda old, p: (lambda tier: old(tier) + fuzz_jobs(p, tier)))(_old, _p)
    PROPS[_p]["rule"] += "; plus a libFuzzer front end on the same check function (quick: replay of the committed corpus; thorough: 8 campaigns of 2e5 runs (C11: 1e5) from that corpus)"

# generator features added after the third and fourth seeding rounds (DESIGN.md s5, s6.1); each is a labelled class in class_counters
_ADDED = {
    "C01": "reused objects also hold the same problem except ONE ingredient (durations / waypoints / boundary state / start time) submitted through either overload; defaulted boundary argument",
    "C02": "objects that held the same problem except one ingredient (whole boundary argument, one boundary field, waypoints, order of the durations), or a larger problem of which the new one is a bit-equal prefix",
    "C03": "offsets of 1e-9..1e-5 around every breakpoint; objects assigned or updated over an evaluated polynomial",
    "C04": "a quarter of the cases scale the whole time axis by 10^k, k in -8..-3 and 3..5",
    "C05": "objects that propagated at a larger size before; linearity with factors 2^-100..2^100",
    "C06": "objects that propagated (and answered energy queries) at a larger size before",
    "C07": "linear-deviation waypoint cost that vanishes exactly at the reference; unperturbed initial guess; either setInitState overload; the same vector evaluated for another problem first (1/4)",
    "C08": "either setInitState overload; time variables decoding to 4e-4..2e-5 s (1/8); K uniform in 1..256 (1/3); copy-constructed / assigned optimizer as the object under test (1/4)",
    "C09": "time variables decoding below 1 ms; runs ending with the initial guess again; knot times / end time of the exposed spline; C09h re-initialisations that change one ingredient (start time only, one boundary component, one waypoint coordinate, nothing)",
    "C10": "updates identical to the previous one, identical except one ingredient, truncated or extended, with the boundary argument omitted",
    "C11": "the first accessor after construction / update drawn from {getPPolyCopy, getTrajectoryCopy, old reference, getTrajectory, getPPoly}",
    "C12": "a fifth of the decision vectors decode to nearly-equal durations (2^-21..2^-44 apart); OpenMPExecutor also called from an outer OpenMP parallel region of 2-4 threads, and in a binary built without -fopenmp (fallback branch)",
    "C13": "a quarter of the objects were updated after evaluating a near-identical problem; the D-dimensional answers are re-queried after all other objects were built",
    "C14": "a quarter of the objects (originals and transformed twins) were updated after evaluating a near-identical problem; mirrored gradients through getEnergyGrad and through propagateGrad(energy partials)",
    "C15": "spline copies with 1..5, 31, 32, 33, 40 segments, copy / assignment / copy of copy / trajectory copy, source updated / assigned over / destroyed, every piece probed; updating a copy leaves the source alone",
    "C16": "identical resubmission; huge finite values; optimisation flags set before a third of the initialisations; time stamps far from zero whose difference is the last double below / first at 1 ms",
    "C17": "a quarter of the cases add dense runs of 96 consecutive doubles (random 52-bit mantissa, |tau| in 2^-14..2^6, T in 2^-10..2^6): monotone and round trip at every point",
    "C18": "start times other than 0; time-point overload; objects that held the same problem except one ingredient or a longer trajectory with a bit-equal prefix",
    "C19": "whole cost scaled by 10^-4..10^-10 (1/6); a second self-check on the same object at another vector, half of them after a re-initialisation with other fixed data (1/3); N up to 16; vectors and norms of the failing check compared with the model",
    "C20": "steps that nearly divide the interval, also steps up to 1000 with remainders of a few millionths of a step; repeated / all-equal breakpoints for the factories; enumerator overloads; length on an object queried, updated in place and queried again",
}
for _p, _txt in _ADDED.items():
    PROPS[_p]["rule"] += "; added after seeding rounds 3-4: " + _txt
