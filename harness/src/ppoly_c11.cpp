// C11 - lazy derivative caches and copies never serve stale data.
// Stateful (model-based) check: an operation sequence over a pool of heap-allocated PPolyND instances is
// interpreted against a plain model; after every operation every live instance is probed.
// Second half: spline objects whose exposed trajectory was evaluated before the spline is updated.
#include "ppoly_gen.hpp"

#ifndef VDIM
#define VDIM 2
#endif

using namespace vf;
using namespace SplineTrajectory;

namespace c11 {

template <int DIM>
struct Slot {
  bool live = false;        // object exists
  bool init = false;        // model says it is initialised
  PPModel<DIM> m;
  std::set<int> evaluated;  // derivative orders evaluated since the last mutation (cache population)
  std::set<int> stale_risk; // orders that were evaluated BEFORE the last mutation (a stale cache would show here)
  int copied_from = -1;     // source slot of the last copy, while the source is unmodified
  bool source_mutated = false;
};

template <int DIM>
PPModel<DIM> derivative_model(const PPModel<DIM>& m, int k) {
  PPModel<DIM> d;
  d.b = m.b;
  int nseg = m.nseg();
  if (k >= m.ncoef) {
    d.ncoef = 1;
    d.rows.assign((size_t)nseg, std::array<double, (size_t)DIM>{});
    return d;
  }
  d.ncoef = m.ncoef - k;
  d.rows.resize((size_t)nseg * d.ncoef);
  for (int s = 0; s < nseg; ++s)
    for (int j = 0; j < d.ncoef; ++j)
      for (int c = 0; c < DIM; ++c) d.rows[(size_t)s * d.ncoef + j][c] = (double)ff(j + k, k) * m.c(s, j + k, c);
  return d;
}

template <class PP, int DIM, int FIXED>
void run_pool(Tape& t, Ctx& ctx, const char* tname) {
  using MatrixType = typename PP::MatrixType;
  using VectorType = typename PP::VectorType;
  const int POOL = 4;
  std::vector<std::unique_ptr<PP>> pool(POOL);
  Slot<DIM> slot[POOL];
  const int maxc = FIXED > 0 ? FIXED : 12;
  int nops = t.rangez(1, 40, 12);
  ctx.label(std::string("type:") + tname);
  if (ctx.want_desc) ctx.desc << "\"part\": \"pool\", \"container\": \"" << tname << "\", \"dim\": " << DIM << ", \"ops\": [";
  bool nt1 = false, nt2 = false;
  // a few favourite derivative orders so that the same order is requested before and after updates
  int favk[3] = {t.range(0, 3), t.range(0, maxc + 1), t.range(0, 6)};

  auto gen_model = [&](int nseg, int ncoef) {
    PPModel<DIM> m;
    m.b = gen_breakpoints(t, nseg);
    gen_coeff_rows(t, m, nseg, ncoef);
    return m;
  };
  auto ensure_live = [&](int i) {
    if (!slot[i].live) { pool[i].reset(new PP()); slot[i] = Slot<DIM>(); slot[i].live = true; }
  };
  auto mutated = [&](int i) {
    // slot i's content changed: orders evaluated before are now the ones a stale cache would betray
    slot[i].stale_risk.insert(slot[i].evaluated.begin(), slot[i].evaluated.end());
    slot[i].evaluated.clear();
    slot[i].copied_from = -1; slot[i].source_mutated = false;
    for (int j = 0; j < POOL; ++j) if (j != i && slot[j].live && slot[j].copied_from == i) slot[j].source_mutated = true;
  };
  // probe one instance at (t,k): bitwise vs a fresh object built from the model, and within gamma of R1
  auto probe = [&](int i, int selector, int jsel, int frac, int k, bool hinted, int hint_in) {
    Slot<DIM>& s = slot[i];
    const PP& pp = *pool[i];
    if (!s.init) {
      if (pp.isInitialized() || pp.getNumSegments() != 0) VFAILNR(ctx, "uninit-state", "slot " << i << " should be uninitialised with 0 segments");
      return;
    }
    const PPModel<DIM>& m = s.m;
    int nseg = m.nseg();
    if (!(pp.isInitialized() && pp.getNumSegments() == nseg && pp.getNumCoeffs() == m.ncoef && pp.getBreakpoints() == m.b)) {
      VFAILNR(ctx, "bookkeeping", "slot " << i << " bookkeeping differs from the model (segments " << pp.getNumSegments() << " vs " << nseg << ", ncoef "
                                          << pp.getNumCoeffs() << " vs " << m.ncoef << ")");
      return;
    }
    int j = jsel % (nseg + 1);
    double tq;
    switch (selector % 5) {
      case 0: tq = m.b[j]; break;
      case 1: tq = std::nextafter(m.b[j], -INFINITY); break;
      case 2: { int sg = std::min(j, nseg - 1); tq = m.b[sg] + (1 + frac % 63) / 64.0 * (m.b[sg + 1] - m.b[sg]); break; }
      case 3: tq = m.b.front() - 0.5; break;
      default: tq = m.b.back() + 0.25; break;
    }
    int hint = hint_in;
    VectorType v = hinted ? pp.evaluate(tq, &hint, k) : pp.evaluate(tq, k);
    MatrixType C = model_matrix<DIM, MatrixType>(m);
    PP fresh(m.b, C, m.ncoef);
    VectorType vf_ = fresh.evaluate(tq, k);
    if (!vec_same(v, vf_)) {
      VFAILNR(ctx, s.stale_risk.count(k) ? "stale-after-update" : (s.source_mutated ? "copy-not-independent" : "differs-from-fresh"),
              "slot " << i << " evaluate(t=" << hexd(tq) << ", k=" << k << ")=" << vec_str(v) << " but a fresh object built from the slot's current data gives "
                      << vec_str(vf_) << " (orders evaluated before the last mutation: " << s.stale_risk.size() << ", source mutated after copy: " << s.source_mutated << ")");
      return;
    }
    int sref; ld val[DIM], asum[DIM];
    model_eval(m, tq, k, &sref, val, asum);
    for (int d = 0; d < DIM; ++d) {
      ld g = horner_gamma(m.ncoef, asum[d]) + (ld)DBL_MIN * 16;
      if (asum[d] < (ld)DBL_MAX / 4 && fabsl((ld)v(d) - val[d]) > g) {
        VFAILNR(ctx, "value", "slot " << i << " evaluate(t=" << hexd(tq) << ", k=" << k << ")[" << d << "]=" << g17(v(d)) << " vs model " << lg(val[d]));
        return;
      }
    }
    if (hinted && k < m.ncoef && hint != sref) { VFAILNR(ctx, "hint-postcondition", "slot " << i << " hint " << hint << " != piece " << sref); return; }
    if (s.stale_risk.count(k)) { nt1 = true; }
    if (s.source_mutated) { nt2 = true; }
    s.evaluated.insert(k);
  };

  for (int op = 0; op < nops && !ctx.failed; ++op) {
    int kind = t.pickw({4, 3, 3, 2, 6, 3, 3, 3, 1});
    int i = t.range(0, POOL - 1);
    const char* oname = "";
    switch (kind) {
      case 0: case 1: case 2: {  // update: same sizes / different segment count / different coefficient count
        ensure_live(i);
        int nseg = slot[i].init ? slot[i].m.nseg() : t.range(1, 6);
        int ncoef = slot[i].init ? slot[i].m.ncoef : t.rangez(1, maxc, std::min(4, maxc));
        if (kind == 1) { static const int sc[] = {1, 2, 3, 5, 8, 31, 32, 33, 40}; nseg = sc[t.range(0, 8)]; oname = "update-segcount"; }
        else if (kind == 2) { ncoef = t.rangez(1, maxc, std::min(4, maxc)); oname = "update-ncoef"; }
        else oname = "update-same-sizes";
        PPModel<DIM> m = gen_model(nseg, ncoef);
        if (kind == 0 && slot[i].init && t.flag()) m.b = slot[i].m.b;  // same breakpoints, new values only
        if (kind == 0 && slot[i].init && t.chance(1, 3)) {
          // minute change: identical data except ONE coefficient moved by a relative 2^-k, next to a very large coefficient
          // (an "unchanged?" shortcut based on a norm-wise comparison would keep stale caches; seeded C11-3)
          m = slot[i].m;
          size_t r = (size_t)t.range(0, (int)m.rows.size() - 1); int d = t.range(0, DIM - 1);
          if (t.flag()) m.rows[(size_t)t.range(0, (int)m.rows.size() - 1)][t.range(0, DIM - 1)] = 1e6 * (1 + t.range(0, 999));
          double v = m.rows[r][d];
          double nv = (v == 0) ? pow2i(-t.range(10, 40)) : v * (1.0 + pow2i(-t.range(20, 48)));
          if (nv == v) nv = std::nextafter(v, INFINITY);
          m.rows[r][d] = nv;
          oname = "update-minute-change";
        }
        MatrixType C = model_matrix<DIM, MatrixType>(m);
        pool[i]->update(m.b, C, ncoef);
        mutated(i);
        slot[i].init = true; slot[i].m = m;
        break;
      }
      case 3: {  // rejected update
        ensure_live(i);
        oname = "update-rejected";
        int why = t.range(0, FIXED > 0 ? 2 : 1);
        PPModel<DIM> m = gen_model(2, std::min(3, maxc));
        MatrixType C = model_matrix<DIM, MatrixType>(m);
        if (why == 0) { std::vector<double> b1 = {m.b[0]}; pool[i]->update(b1, C, m.ncoef); }
        else if (why == 1) { MatrixType C2 = C.topRows(C.rows() - 1); pool[i]->update(m.b, C2, m.ncoef); }
        else { MatrixType C3 = MatrixType::Zero(2 * (FIXED + 1), DIM); pool[i]->update(m.b, C3, FIXED + 1); }
        mutated(i);
        slot[i].init = false; slot[i].m = PPModel<DIM>();
        slot[i].stale_risk.clear();
        break;
      }
      case 4: {  // evaluate (the op itself is a probe with generated arguments)
        oname = "evaluate";
        if (!slot[i].live) break;
        int k = t.flag() ? favk[t.range(0, 2)] : t.range(0, maxc + 2);
        probe(i, t.range(0, 4), t.range(0, 80), t.range(0, 62), k, t.flag(), t.range(-1, 3));
        break;
      }
      case 5: {  // copy-construct j from i
        oname = "copy-construct";
        if (!slot[i].live) break;
        int j = t.range(0, POOL - 1);
        if (j == i) j = (i + 1) % POOL;
        mutated(j);
        pool[j].reset(new PP(*pool[i]));
        slot[j] = Slot<DIM>(); slot[j].live = true; slot[j].init = slot[i].init; slot[j].m = slot[i].m;
        // the copy inherits whatever caches the source had: orders the source evaluated count as populated
        slot[j].evaluated = slot[i].evaluated; slot[j].stale_risk = slot[i].stale_risk;
        slot[j].copied_from = i;
        break;
      }
      case 6: {  // copy-assign j = i (including self-assignment)
        oname = "copy-assign";
        if (!slot[i].live) break;
        int j = t.range(0, POOL - 1);
        ensure_live(j);
        if (j != i) {
          std::set<int> before = slot[j].evaluated; before.insert(slot[j].stale_risk.begin(), slot[j].stale_risk.end());
          mutated(j);
          *pool[j] = *pool[i];
          bool live = true;
          slot[j].live = live; slot[j].init = slot[i].init; slot[j].m = slot[i].m;
          slot[j].evaluated = slot[i].evaluated;
          slot[j].stale_risk = before; slot[j].stale_risk.insert(slot[i].stale_risk.begin(), slot[i].stale_risk.end());
          slot[j].copied_from = i; slot[j].source_mutated = false;
        } else {
          PP& self = *pool[i];
          self = *pool[i];  // self-assignment must be harmless
          oname = "self-assign";
        }
        break;
      }
      case 7: {  // derivative trajectory into the pool
        oname = "derivative";
        if (!slot[i].live || !slot[i].init) break;
        int j = t.range(0, POOL - 1);
        int k = t.range(0, slot[i].m.ncoef + 1);
        PPModel<DIM> dm = derivative_model(slot[i].m, k);
        PP dp = pool[i]->derivative(k);
        if (j == i) mutated(i); else mutated(j);
        pool[j].reset(new PP(dp));
        std::set<int> risk = (j == i) ? slot[i].stale_risk : std::set<int>();
        slot[j] = Slot<DIM>(); slot[j].live = true; slot[j].init = true; slot[j].m = dm; slot[j].stale_risk = risk;
        break;
      }
      default: {  // destroy
        oname = "destroy";
        if (!slot[i].live) break;
        mutated(i);
        pool[i].reset();
        slot[i] = Slot<DIM>();
        break;
      }
    }
    ctx.label(std::string("op:") + oname);
    if (ctx.want_desc && op < 40) ctx.desc << (op ? "," : "") << "\"" << oname << "@" << i << "\"";
    // after every op: probe every live instance, at a favourite order and at a generated order
    int psel = t.range(0, 4), pj = t.range(0, 80), pf = t.range(0, 62), pk = t.range(0, maxc + 2);
    for (int s = 0; s < POOL && !ctx.failed; ++s) {
      if (!slot[s].live) continue;
      probe(s, psel, pj, pf, favk[op % 3], false, 0);
      if (!ctx.failed) probe(s, psel + 1, pj + 1, pf, pk, true, pj % 5 - 1);
    }
  }
  if (ctx.want_desc) ctx.desc << "]";
  if (nt1) ctx.label("nt:eval-update-eval-same-order");
  if (nt2) ctx.label("nt:copy-mutate-source-probe-copy");
  ctx.nontrivial = nt1 || nt2;
}

// ---- spline half: the exposed trajectory always reflects the spline's latest update; copies keep the old data
template <class Spline, int DIM>
void run_spline(Tape& t, Ctx& ctx, const char* sname) {
  using MatrixType = typename Spline::MatrixType;
  using PP = typename Spline::TrajectoryType;
  using VectorType = typename PP::VectorType;
  ctx.label(std::string("spline:") + sname);
  if (ctx.want_desc) ctx.desc << "\"part\": \"spline\", \"spline\": \"" << sname << "\", \"dim\": " << DIM << ", \"updates\": [";
  auto gen_inputs = [&](std::vector<double>& T, MatrixType& P, double& t0, BoundaryConditions<DIM>& bc) {
    int N = t.rangez(1, 9, 3);
    T.resize(N);
    for (auto& x : T) x = (4 + t.range(0, 60)) / 16.0;
    P.resize(N + 1, DIM);
    for (int i = 0; i <= N; ++i) for (int d = 0; d < DIM; ++d) P(i, d) = t.sym(640) / 64.0;
    t0 = t.sym(80) / 8.0;
    for (int d = 0; d < DIM; ++d) {
      bc.start_velocity(d) = t.sym(64) / 32.0; bc.end_velocity(d) = t.sym(64) / 32.0;
      bc.start_acceleration(d) = t.sym(64) / 32.0; bc.end_acceleration(d) = t.sym(64) / 32.0;
      bc.start_jerk(d) = t.sym(64) / 32.0; bc.end_jerk(d) = t.sym(64) / 32.0;
    }
  };
  std::vector<double> T; MatrixType P; double t0; BoundaryConditions<DIM> bc;
  gen_inputs(T, P, t0, bc);
  Spline sp(T, P, t0, bc);
  // the very first accessor used on a new or freshly updated spline may be any of the four (copies included)
  auto same_traj = [&](const PP& x, const PP& y) {
    return x.getNumSegments() == y.getNumSegments() && x.getBreakpoints() == y.getBreakpoints() && x.getCoefficients().rows() == y.getCoefficients().rows() &&
           (x.getCoefficients().array() == y.getCoefficients().array()).all() && x.isInitialized() == y.isInitialized();
  };
  if (t.flag()) {
    PP first = t.flag() ? sp.getPPolyCopy() : sp.getTrajectoryCopy();
    Spline twin(T, P, t0, bc);
    VCHECK(ctx, same_traj(first, twin.getTrajectory()), "trajectory-not-updated", sname << ": the trajectory copy taken right after construction (before any other accessor) is not the constructed trajectory");
    ctx.label("first-accessor-after-construction:copy");
  }
  const PP& live = sp.getTrajectory();
  const PP& live2 = sp.getPPoly();
  int rounds = t.rangez(1, 6, 2);
  bool nt = false;
  for (int r = 0; r < rounds; ++r) {
    // evaluate the exposed trajectory at a few orders (populates its lazy caches), take a copy, evaluate the copy
    int nq = t.range(1, 4);
    std::vector<double> qs; std::vector<int> ks; std::vector<VectorType, Eigen::aligned_allocator<VectorType>> old_vals;
    double a = live.getStartTime(), b = live.getEndTime();
    for (int q = 0; q < nq; ++q) {
      qs.push_back(a + (b - a) * t.range(0, 64) / 64.0);
      ks.push_back(t.range(0, Spline::COEFF_NUM));
      old_vals.push_back(live.evaluate(qs.back(), ks.back()));
    }
    PP copy = t.flag() ? sp.getTrajectoryCopy() : sp.getPPolyCopy();
    PP assigned; assigned = live;
    MatrixType oldC = live.getCoefficients();
    std::vector<double> oldB = live.getBreakpoints();
    for (int q = 0; q < nq; ++q) (void)copy.evaluate(qs[q], ks[q]);
    // update the spline (either overload)
    std::vector<double> T2; MatrixType P2; double t02; BoundaryConditions<DIM> bc2;
    gen_inputs(T2, P2, t02, bc2);
    if (t.chance(1, 3)) {
      // minute change: the same problem with ONE waypoint coordinate moved slightly, far from the origin
      T2 = sp.getTimeSegments(); P2 = sp.getSpacePoints(); t02 = sp.getStartTime(); bc2 = sp.getBoundaryConditions();
      if (t.flag()) for (Eigen::Index i = 0; i < P2.rows(); ++i) P2(i, 0) += 1e6;
      Eigen::Index r = t.range(0, (int)P2.rows() - 1); int d = t.range(0, DIM - 1);
      double v = P2(r, d), nv = v + (1 + std::fabs(v)) * pow2i(-t.range(20, 44));
      if (nv == v) nv = std::nextafter(v, INFINITY);
      P2(r, d) = nv;
      ctx.label("spline-update:minute-change");
    }
    bool by_points = t.flag();
    std::vector<double> tp;
    if (by_points) {
      tp.resize(T2.size() + 1); tp[0] = t02;
      for (size_t i = 0; i < T2.size(); ++i) tp[i + 1] = tp[i] + T2[i];
      sp.update(tp, P2, bc2);
    } else sp.update(T2, P2, t02, bc2);
    if (ctx.want_desc) ctx.desc << (r ? "," : "") << "{\"N\": " << T2.size() << ", \"by_points\": " << (by_points ? "true" : "false") << ", \"queries\": " << nq << "}";
    Spline fresh = by_points ? Spline(tp, P2, bc2) : Spline(T2, P2, t02, bc2);
    const PP& ft = fresh.getTrajectory();
    {
      int first = t.range(0, 4);
      static const char* fn[] = {"getPPolyCopy()", "getTrajectoryCopy()", "reference obtained before the update", "getTrajectory()", "getPPoly()"};
      bool ok = true;
      switch (first) {
        case 0: { PP c = sp.getPPolyCopy(); ok = same_traj(c, ft); break; }
        case 1: { PP c = sp.getTrajectoryCopy(); ok = same_traj(c, ft); break; }
        case 2: ok = same_traj(live, ft) && same_traj(live2, ft); break;
        case 3: ok = same_traj(sp.getTrajectory(), ft); break;
        default: ok = same_traj(sp.getPPoly(), ft); break;
      }
      ctx.label(std::string("first-accessor-after-update:") + fn[first]);
      VCHECK(ctx, ok, "trajectory-not-updated", sname << ": the trajectory seen through " << fn[first] << " as the first accessor after update() is not the updated trajectory (round " << r << ")");
    }
    VCHECK(ctx, live.getNumSegments() == (int)T2.size() && live.getBreakpoints() == ft.getBreakpoints() &&
                    (live.getCoefficients().array() == ft.getCoefficients().array()).all(),
           "trajectory-not-updated", sname << ": exposed trajectory does not carry the latest update's breakpoints/coefficients (round " << r << ")");
    double a2 = ft.getStartTime(), b2 = ft.getEndTime();
    for (int q = 0; q < nq; ++q) {
      // same derivative orders as before the update, new times in the new range and the old times as well
      for (double tq : {a2 + (b2 - a2) * ((q * 17 + 5) % 64) / 64.0, qs[q]}) {
        VectorType v1 = live.evaluate(tq, ks[q]);
        VectorType v2 = ft.evaluate(tq, ks[q]);
        VectorType v3 = live2.evaluate(tq, ks[q]);
        VCHECK(ctx, vec_same(v1, v2) && vec_same(v3, v2), "stale-after-update",
               sname << ": trajectory exposed by the spline evaluates to " << vec_str(v1) << " at t=" << hexd(tq) << " k=" << ks[q]
                     << " after update, a freshly built spline gives " << vec_str(v2) << " (order " << ks[q] << " was evaluated before the update)");
      }
      // the copies keep the old trajectory
      VectorType c1 = copy.evaluate(qs[q], ks[q]);
      VectorType c2 = assigned.evaluate(qs[q], ks[q]);
      VCHECK(ctx, vec_same(c1, old_vals[q]) && vec_same(c2, old_vals[q]), "copy-not-independent",
             sname << ": copy of the trajectory changed after the spline was updated (t=" << hexd(qs[q]) << " k=" << ks[q] << ")");
    }
    VCHECK(ctx, copy.getBreakpoints() == oldB && (copy.getCoefficients().array() == oldC.array()).all() && assigned.getBreakpoints() == oldB, "copy-not-independent",
           sname << ": copy's data changed after the spline was updated");
    // assignment of whole spline objects: the target's trajectory was evaluated before (caches populated) and must follow the assignment
    if (t.flag()) {
      std::vector<double> T3; MatrixType P3; double t03; BoundaryConditions<DIM> bc3;
      gen_inputs(T3, P3, t03, bc3);
      Spline target(T3, P3, t03, bc3);
      const PP& tt = target.getTrajectory();
      for (int q = 0; q < nq; ++q) (void)tt.evaluate(tt.getStartTime() + 0.25 * q, ks[q]);
      target = sp;
      Spline cc(sp);
      for (int q = 0; q < nq; ++q) {
        double tq = a2 + (b2 - a2) * ((q * 29 + 3) % 64) / 64.0;
        VectorType v1 = target.getTrajectory().evaluate(tq, ks[q]), v2 = ft.evaluate(tq, ks[q]), v3 = cc.getTrajectory().evaluate(tq, ks[q]);
        VCHECK(ctx, vec_same(v1, v2) && vec_same(v3, v2), "stale-after-assignment",
               sname << ": a spline assigned over an already evaluated spline (or copy-constructed) evaluates to " << vec_str(v1) << " / " << vec_str(v3) << " at t=" << hexd(tq) << " k=" << ks[q] << ", its source gives " << vec_str(v2));
      }
      VCHECK(ctx, same_val(target.getEnergy(), fresh.getEnergy()) && target.getCumulativeTimes() == fresh.getCumulativeTimes(), "stale-after-assignment", sname << ": assigned spline's energy / knot times differ from its source");
      ctx.label("spline-assign-over-evaluated");
    }
    nt = true;
  }
  if (ctx.want_desc) ctx.desc << "]";
  ctx.nontrivial = nt;
}

void check(Tape& t, Ctx& ctx) {
  constexpr int D = VDIM;
  int part = t.pickw({3, 1});
  if (part == 0) {
    switch (t.range(0, 3)) {
      case 0: run_pool<PPolyND<D>, D, 0>(t, ctx, "dynamic"); break;
      case 1: run_pool<PPolyND<D, 4>, D, 4>(t, ctx, "fixed4"); break;
      case 2: run_pool<PPolyND<D, 8>, D, 8>(t, ctx, "fixed8"); break;
      default: run_pool<PPolyND<D, 12>, D, 12>(t, ctx, "fixed12"); break;
    }
  } else {
    switch (t.range(0, 2)) {
      case 0: run_spline<CubicSplineND<D>, D>(t, ctx, "cubic"); break;
      case 1: run_spline<QuinticSplineND<D>, D>(t, ctx, "quintic"); break;
      default: run_spline<SepticSplineND<D>, D>(t, ctx, "septic"); break;
    }
  }
}

Registrar reg({"C11", "PPolyND pool + spline trajectories, dim=" + std::to_string(VDIM), 3000, 0, check, nullptr});

}  // namespace c11
