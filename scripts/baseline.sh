#!/bin/bash
# Build the repository's own CMake project (guard OFF: no -D flags of ours) in a scratch
# directory outside /repo and /verif, run the nine test binaries plainly, parse their
# "[PASS] name" / "name : PASS" lines and compare with the 36 stable names of BASELINE.json.
# usage: baseline.sh [repo_dir]      exit 0 iff all 36 stable tests pass.
set -u
REPO=${1:-${VERIF_REPO:-/repo}}
HERE=$(cd "$(dirname "$0")/.." && pwd)
B=$(mktemp -d /tmp/st-verif-baseline.XXXXXX)
trap 'rm -rf "$B"' EXIT
cmake -G Ninja -S "$REPO" -B "$B" -DCMAKE_BUILD_TYPE=Release > "$B/cfg.log" 2>&1 || { tail -20 "$B/cfg.log"; echo "BASELINE: configure failed"; exit 2; }
cmake --build "$B" -j16 > "$B/build.log" 2>&1 || { tail -40 "$B/build.log"; echo "BASELINE: build failed"; exit 2; }
# every binary writes its own log (concurrent appends to one file can interleave lines and hide a PASS line from the parser)
TESTS="test_cost_grad test_cubic_spline_vs_minco_nd test_septic_spline_vs_minco_nd test_quintic_spline_vs_minco_nd test_Grad test_with_min_jerk_3d test_bc_grad test_with_min_snap_3d test_ppolyND"
for t in $TESTS; do
  ( cd "$B" && timeout 900 ./$t > "$B/$t.testlog" 2>&1 ) &
done
wait
: > "$B/test.log"
for t in $TESTS; do cat "$B/$t.testlog" >> "$B/test.log"; echo >> "$B/test.log"; done
python3 - "$B/test.log" "$HERE/scripts/baseline_names.txt" <<'PY'
import sys,re
log=open(sys.argv[1],errors='replace').read().splitlines()
want=[l.rstrip('\n') for l in open(sys.argv[2]) if l.strip()]
sys.path.insert(0,'/w/lib')
passed=set(); failed=set()
try:
    from parse_tests import parse_lines_iter
    p,f,o=parse_lines_iter(log); passed=set(p); failed=set(f)
except Exception as e:
    for l in log:
        m=re.match(r'\s*\[(PASS|FAIL)\]\s*(.+?)\s*$',l)
        if m: (passed if m.group(1)=='PASS' else failed).add(m.group(2)); continue
        m=re.match(r'\s*(.+?)\s*:\s*(PASS|FAIL)\b',l)
        if m: (passed if m.group(2)=='PASS' else failed).add(m.group(1))
missing=[w for w in want if w not in passed or w in failed]
print("BASELINE: %d/%d stable tests passed"%(len(want)-len(missing),len(want)))
for m in missing: print("BASELINE-FAIL:",m)
sys.exit(1 if missing else 0)
PY
