// ppoly_gen.hpp - generators and model for PPolyND cases (C03, C11, C16, C20).
#pragma once
#include "vcore.hpp"
#include "ref_poly.hpp"
#include "SplineTrajectory.hpp"

namespace vf {

// plain model of a piecewise polynomial: breakpoints + coefficient rows (segment-major, ascending powers)
template <int DIM>
struct PPModel {
  std::vector<double> b;                                  // nseg+1 strictly increasing breakpoints
  int ncoef = 0;
  std::vector<std::array<double, (size_t)DIM>> rows;      // nseg*ncoef rows
  int nseg() const { return b.size() < 2 ? 0 : (int)b.size() - 1; }
  // piece used for t: first piece before the first breakpoint, last piece at/after the last, otherwise [b_i, b_i+1)
  int seg(double t) const {
    int n = nseg();
    if (n == 0) return 0;
    if (t <= b.front()) return 0;
    if (t >= b.back()) return n - 1;
    for (int i = 0; i < n; ++i) if (t < b[i + 1]) return i;
    return n - 1;
  }
  double c(int s, int k, int d) const { return rows[(size_t)s * ncoef + k][d]; }
};

// breakpoints: strictly increasing; gaps from {1 ulp, 2 ulp, 2^-20, O(1), large}
inline std::vector<double> gen_breakpoints(Tape& t, int nseg, std::string* desc = nullptr) {
  std::vector<double> b(nseg + 1);
  int sc = t.pickw({4, 2, 2, 1, 1});
  double b0 = 0;
  switch (sc) {
    case 0: b0 = 0; break;
    case 1: b0 = t.sym(800) / 8.0; break;
    case 2: b0 = 1e3 * t.sym(100); break;
    case 3: b0 = 1e6 * t.sym(10); break;
    default: b0 = t.flag() ? 1e9 : -1e9; break;
  }
  b[0] = b0;
  int mode = t.pickw({5, 2, 1});  // 0: mostly O(1) gaps, 1: mixed with tiny gaps, 2: uniform gap
  double ug = (1 + t.range(0, 63)) / 16.0;
  for (int i = 0; i < nseg; ++i) {
    double gap;
    if (mode == 2) gap = ug;
    else {
      int gc = (mode == 0) ? t.pickw({12, 1, 1, 1, 1}) : t.pickw({3, 3, 3, 3, 1});
      switch (gc) {
        case 0: gap = (1 + t.range(0, 79)) / 16.0; break;          // O(1)
        case 1: gap = ulp_of(b[i]); break;                         // 1 ulp
        case 2: gap = 2 * ulp_of(b[i]); break;                     // 2 ulp
        case 3: gap = pow2i(-20); break;
        default: gap = 1e6 * (1 + t.range(0, 9)); break;
      }
    }
    double nb = b[i] + gap;
    if (!(nb > b[i])) nb = std::nextafter(b[i], INFINITY);
    b[i + 1] = nb;
  }
  if (desc) { std::ostringstream o; o << "start=" << g17(b0) << " mode=" << mode; *desc = o.str(); }
  return b;
}

template <int DIM>
inline void gen_coeff_rows(Tape& t, PPModel<DIM>& m, int nseg, int ncoef) {
  m.ncoef = ncoef;
  m.rows.resize((size_t)nseg * ncoef);
  for (auto& r : m.rows) {
    uint32_t w = t.raw();
    for (int d = 0; d < DIM; ++d) r[d] = coef_from_word(d == 0 ? w : (w == 0 ? 0u : mix32(w + 0x9e3779b9u * (uint32_t)d)));
  }
}

template <int DIM, class MatrixType>
inline MatrixType model_matrix(const PPModel<DIM>& m) {
  MatrixType M((Eigen::Index)m.rows.size(), DIM);
  for (size_t r = 0; r < m.rows.size(); ++r) for (int d = 0; d < DIM; ++d) M((Eigen::Index)r, d) = m.rows[r][d];
  return M;
}

// reference evaluation of the model at (t,k): per component value + abs-sum, using u = fl(t - b_seg) as the library forms it
template <int DIM>
inline void model_eval(const PPModel<DIM>& m, double t, int k, int* seg_out, ld* val, ld* asum) {
  int s = m.seg(t);
  if (seg_out) *seg_out = s;
  double u = t - m.b[s];
  for (int d = 0; d < DIM; ++d) {
    RefVal r = ref_poly_eval([&](int n) { return m.c(s, n, d); }, m.ncoef, (ld)u, k);
    val[d] = r.value; asum[d] = r.abssum;
  }
}

template <class V1, class V2>
inline bool vec_same(const V1& a, const V2& b) {
  if (a.size() != b.size()) return false;
  for (Eigen::Index i = 0; i < a.size(); ++i) if (!same_val(a(i), b(i))) return false;
  return true;
}
template <class V>
inline std::string vec_str(const V& a) {
  std::ostringstream o; o << "[";
  for (Eigen::Index i = 0; i < a.size(); ++i) o << (i ? "," : "") << hexd(a(i));
  o << "]"; return o.str();
}

}  // namespace vf
