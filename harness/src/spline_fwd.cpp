// spline_fwd.cpp - properties of the forward construction, one binary per spatial dimension (-DVDIM):
//   C01 interpolation / boundary states / both time specifications / bookkeeping
//   C02 minimum-energy interpolant (dense reference solve, continuity, variational test)   [+ C02e enumerated structures]
//   C04 reported energy = integral of squared s-th derivative of the published trajectory
//   C18 graceful degradation of the defining equations up to duration ratio 100
#include <algorithm>
#include "spline_gen.hpp"
#include "spline_resid.hpp"

#ifndef VDIM
#define VDIM 3
#endif

using namespace vf;
using namespace SplineTrajectory;

namespace fwd {

constexpr int D = VDIM;
const double TAU_FWD = 1e-8;
// order-specific forward tolerance: >= 1000x the worst normalised error measured on the pinned tree at the edge of the well-scaled domain
inline ld tau_fwd(int S) { return S == 2 ? 1e-10L : (S == 3 ? 1e-8L : 1e-7L); }

template <class V> ld ninf(const V& v) { ld m = 0; for (Eigen::Index i = 0; i < v.size(); ++i) m = std::max(m, fabsl((ld)v(i))); return m; }

// ===================================================================================== C01
template <int S>
void c01_case(Tape& t, Ctx& ctx) {
  using Spline = typename SplineOf<D, S>::type;
  using MatrixType = typename Spline::MatrixType;
  using Vec = typename Spline::VectorType;
  constexpr int nc = 2 * S;
  const ld TAUF = tau_fwd(S);
  // residuals of the defining equations (interpolation, boundary states) are far better conditioned than the coefficients:
  // measured worst over 3e6 cases 6e-16 / 1.2e-14 / 2.3e-12 (cubic / quintic / septic); tolerance >= 400x above that
  const ld TAUR = S == 2 ? 1e-12L : (S == 3 ? 1e-11L : 1e-9L);
  SplineCase<D> c = gen_spline_case<D>(t, S, wellscaled_ratio(S));
  const int N = c.N;
  // dyadic variant: durations k/64 (k in 16..64, ratio <= 4), start j/64 -> every sum and difference is exact
  bool dyadic = t.chance(1, 4);
  if (dyadic) {
    for (auto& x : c.T) x = (16 + t.range(0, 48)) / 64.0;
    c.t0 = t.sym(65536) / 64.0;
    c.sigma = 0.5; c.dur_shape = "dyadic k/64";
    // boundary data were generated for the old time scale; they remain valid data
  }
  // ---- boundary-condition object through each constructor arity
  int arity = t.range(0, 3);
  BoundaryConditions<D> ebc;  // expected fields, by the documented argument order
  BoundaryConditions<D> lib;
  const BoundaryConditions<D>& g = c.bc;
  switch (arity) {
    case 0: lib = g; ebc = g; break;  // field assignment
    case 1: lib = BoundaryConditions<D>(g.start_velocity, g.end_velocity); ebc.start_velocity = g.start_velocity; ebc.end_velocity = g.end_velocity; break;
    case 2:
      lib = BoundaryConditions<D>(g.start_velocity, g.start_acceleration, g.end_velocity, g.end_acceleration);
      ebc.start_velocity = g.start_velocity; ebc.start_acceleration = g.start_acceleration; ebc.end_velocity = g.end_velocity; ebc.end_acceleration = g.end_acceleration;
      break;
    default:
      lib = BoundaryConditions<D>(g.start_velocity, g.start_acceleration, g.start_jerk, g.end_velocity, g.end_acceleration, g.end_jerk);
      ebc = g;
      break;
  }
  auto bc_eq = [&](const BoundaryConditions<D>& a, const BoundaryConditions<D>& b) {
    return vec_same_bits(a.start_velocity, b.start_velocity) && vec_same_bits(a.start_acceleration, b.start_acceleration) && vec_same_bits(a.start_jerk, b.start_jerk) &&
           vec_same_bits(a.end_velocity, b.end_velocity) && vec_same_bits(a.end_acceleration, b.end_acceleration) && vec_same_bits(a.end_jerk, b.end_jerk);
  };
  VCHECK(ctx, bc_eq(lib, ebc), "bc-ctor-routing", "BoundaryConditions constructor with " << (arity == 1 ? 2 : arity == 2 ? 4 : 6) << " arguments does not route its arguments to the documented fields");
  c.bc = ebc;
  // ---- construction route
  int route = t.range(0, 4);
  const std::vector<double> tp = c.time_points();
  bool by_points = (route == 1 || route == 3);
  Spline sp_store;
  std::unique_ptr<Spline> sp_heap;
  const char* rname = "";
  // when every boundary field is zero the overloads with the defaulted boundary argument are used half of the time
  bool all_zero_bc = true;
  for (int m = 1; m <= 3; ++m) for (int d = 0; d < D; ++d) if (ebc.start_velocity(d) != 0 || ebc.end_velocity(d) != 0 || ebc.start_acceleration(d) != 0 || ebc.end_acceleration(d) != 0 || ebc.start_jerk(d) != 0 || ebc.end_jerk(d) != 0) all_zero_bc = false;
  const bool defaulted = all_zero_bc && t.flag();
  if (defaulted) ctx.label("bc:defaulted-argument");
  switch (route) {
    case 0: sp_heap.reset(defaulted ? new Spline(c.T, c.P, c.t0) : new Spline(c.T, c.P, c.t0, lib)); rname = "ctor(durations,start)"; break;
    case 1: sp_heap.reset(defaulted ? new Spline(tp, c.P) : new Spline(tp, c.P, lib)); rname = "ctor(time points)"; break;
    case 2: sp_heap.reset(new Spline()); if (defaulted) sp_heap->update(c.T, c.P, c.t0); else sp_heap->update(c.T, c.P, c.t0, lib); rname = "update(durations,start)"; break;
    case 3: sp_heap.reset(new Spline()); if (defaulted) sp_heap->update(tp, c.P); else sp_heap->update(tp, c.P, lib); rname = "update(time points)"; break;
    default: {
      // object that previously held a different problem and has been queried
      SplineCase<D> old = gen_spline_case<D>(t, S, wellscaled_ratio(S), 8, 12);
      int ov = t.pickw({2, 2, 2});
      bool old_by_points = false;
      if (ov == 1) { old.N = N; old.T.assign(N, 1.0); old.P.setZero(N + 1, D); }  // same size as the new problem
      else if (ov == 2) {
        // the same problem except ONE ingredient (durations / waypoints / boundary state / start time), submitted through either overload
        SplineCase<D> alt; alt.s = S; alt.N = N;
        gen_durations(t, N, wellscaled_ratio(S), alt.T, &alt.sigma, &alt.ratio, &alt.dur_shape, &alt.shape);
        alt.t0 = c.t0; gen_data(t, alt);
        old = c;
        switch (t.range(0, 3)) {
          case 0: old.T = alt.T; break;
          case 1: old.P = alt.P; break;
          case 2: old.bc = alt.bc; break;
          default: old.t0 = c.t0 + 0.5 + t.range(0, 8); break;
        }
        old_by_points = t.flag();
        ctx.label("reused:same-problem-but-one-ingredient");
      }
      if (old_by_points) sp_heap.reset(new Spline(old.time_points(), old.P, old.bc));
      else
      sp_heap.reset(new Spline(old.T, old.P, old.t0, old.bc));
      for (int k = 0; k <= 3; ++k) (void)sp_heap->getTrajectory().evaluate(old.t0 + 0.25 * old.T[0], k);
      (void)sp_heap->getEnergy();
      by_points = t.flag();
      if (defaulted) { if (by_points) sp_heap->update(tp, c.P); else sp_heap->update(c.T, c.P, c.t0); }   // the old problem had its own boundary state
      else if (by_points) sp_heap->update(tp, c.P, lib); else sp_heap->update(c.T, c.P, c.t0, lib);
      rname = by_points ? "reused object: update(time points)" : "reused object: update(durations,start)";
      break;
    }
  }
  const Spline& sp = *sp_heap;
  ctx.label(std::string("order:") + SplineOf<D, S>::name());
  ctx.label(std::string("route:") + rname);
  ctx.label("bc-arity:" + std::to_string(arity == 0 ? 0 : 2 * arity));
  ctx.label(N == 1 ? "N=1" : (N == 2 ? "N=2" : "N>=3"));
  if (c.t0 != 0) ctx.label("nonzero-start-time");
  if (dyadic) ctx.label("dyadic-times");
  if (ctx.want_desc) ctx.desc << c.describe() << ", \"route\": \"" << rname << "\", \"bc_arity\": " << (arity == 0 ? 0 : 2 * arity) << ", \"dyadic\": " << (dyadic ? "true" : "false");
  bool nonzero_bd = false;
  for (int m = 1; m < S; ++m) if (ninf(c.bc_field(false, m)) > 0 || ninf(c.bc_field(true, m)) > 0) nonzero_bd = true;
  ctx.nontrivial = (N >= 2) || nonzero_bd;

  // effective durations the construction sees
  std::vector<double> Teff = c.T;
  if (by_points) for (int i = 0; i < N; ++i) Teff[i] = tp[i + 1] - tp[i];
  ld tmax = std::max(fabsl((ld)c.t0), fabsl((ld)tp.back()));
  double U = ulp_of((double)tmax);
  // ---- (d) bookkeeping
  VCHECK(ctx, sp.isInitialized() && sp.getNumSegments() == N && (int)sp.getNumPoints() == N + 1 && sp.getDimension() == D, "bookkeeping",
         rname << ": isInitialized/segments/points do not echo the inputs (segments " << sp.getNumSegments() << ", expected " << N << ")");
  VCHECK(ctx, sp.getStartTime() == c.t0, "bookkeeping", rname << ": getStartTime()=" << g17(sp.getStartTime()) << " but the start time is " << g17(c.t0));
  VCHECK(ctx, (int)sp.getTimeSegments().size() == N && (int)sp.getCumulativeTimes().size() == N + 1, "bookkeeping", rname << ": size of reported durations / knot times wrong");
  {
    ld acc = c.t0;
    VCHECK(ctx, sp.getCumulativeTimes()[0] == c.t0, "knot-times", rname << ": first knot time " << g17(sp.getCumulativeTimes()[0]) << " != start time " << g17(c.t0));
    for (int i = 0; i < N; ++i) {
      VCHECK(ctx, std::fabs(sp.getTimeSegments()[i] - c.T[i]) <= 4 * U, "durations-echo",
             rname << ": reported duration " << i << " = " << g17(sp.getTimeSegments()[i]) << " but the input duration is " << g17(c.T[i]) << " (4 ulp(t_max) = " << g6(4 * U) << ")");
      acc += (ld)c.T[i];
      VCHECK(ctx, fabsl((ld)sp.getCumulativeTimes()[i + 1] - acc) <= 2.0L * (i + 2) * U, "knot-times",
             rname << ": knot time " << i + 1 << " = " << g17(sp.getCumulativeTimes()[i + 1]) << " but start + sum of durations = " << lg(acc));
      if (by_points)
        VCHECK(ctx, std::fabs(sp.getCumulativeTimes()[i + 1] - tp[i + 1]) <= 2.0 * (i + 2) * U, "knot-times",
               rname << ": knot time " << i + 1 << " = " << g17(sp.getCumulativeTimes()[i + 1]) << " but the given time point is " << g17(tp[i + 1]));
    }
    VCHECK(ctx, fabsl((ld)sp.getEndTime() - acc) <= 2.0L * (N + 2) * U && sp.getEndTime() == sp.getCumulativeTimes().back(), "bookkeeping", rname << ": getEndTime()=" << g17(sp.getEndTime()) << " vs " << lg(acc));
    VCHECK(ctx, fabsl((ld)sp.getDuration() - (acc - (ld)c.t0)) <= 2.0L * (N + 3) * U, "bookkeeping", rname << ": getDuration()=" << g17(sp.getDuration()) << " vs sum of durations " << lg(acc - (ld)c.t0));
  }
  const auto& traj = sp.getTrajectory();
  VCHECK(ctx, traj.isInitialized() && traj.getNumSegments() == N && traj.getNumCoeffs() == nc && traj.getBreakpoints() == sp.getCumulativeTimes() &&
                  traj.getStartTime() == sp.getStartTime() && traj.getEndTime() == sp.getEndTime() && &sp.getPPoly() == &traj,
         "bookkeeping", rname << ": trajectory bookkeeping (segments/coeffs/breakpoints/start/end) disagrees with the spline");
  VCHECK(ctx, mat_same_bits(sp.getSpacePoints(), c.P), "bookkeeping", rname << ": getSpacePoints() does not echo the waypoints: " << first_diff(sp.getSpacePoints(), c.P));
  VCHECK(ctx, bc_eq(sp.getBoundaryConditions(), ebc), "bookkeeping", rname << ": getBoundaryConditions() does not echo the boundary states");
  const auto& C = traj.getCoefficients();
  VCHECK(ctx, C.rows() == nc * N && C.cols() == D, "bookkeeping", "coefficient matrix has shape " << C.rows() << "x" << C.cols());
  const auto& bk = traj.getBreakpoints();

  // ---- (a) interpolation at every knot from either side
  for (int i = 0; i <= N; ++i) {
    Vec target = c.P.row(i).transpose();
    if (i < N) {  // right limit: global route exactly at the knot, and segment-local at 0
      ld sc = std::max<ld>(c.M, 0);
      for (int d = 0; d < D; ++d) sc = std::max(sc, seg_abs_scale(C, i, nc, d, (ld)Teff[i], 0));
      Vec g1 = traj.evaluate(bk[i], 0), g2 = traj[i].evaluate(0.0, 0);
      for (int d = 0; d < D; ++d) {
        ld e = std::max(fabsl((ld)g1(d) - target(d)), fabsl((ld)g2(d) - target(d)));
        ctx.maxi(std::string("interp_right_err_") + SplineOf<D, S>::name(), (double)(e / sc));
        VCHECK(ctx, e <= TAUR * sc, "interp-right",
               rname << " " << SplineOf<D, S>::name() << ": right limit at knot " << i << " coordinate " << d << " is " << g17(g1(d)) << " / " << g17(g2(d)) << ", waypoint " << g17(target(d)) << " (N=" << N << ")");
      }
      if (vec_same_bits(g1, target)) ctx.label("right-limit-bitwise"); else ctx.label("right-limit-within-tol");
    }
    if (i >= 1) {  // left limit: segment-local at its duration, global one ulp before the knot, and (last knot) global at the end time
      int sg = i - 1;
      ld sc = std::max<ld>(c.M, 0), vs = 0;
      for (int d = 0; d < D; ++d) { sc = std::max(sc, seg_abs_scale(C, sg, nc, d, (ld)Teff[sg], 0)); vs = std::max(vs, seg_abs_scale(C, sg, nc, d, (ld)Teff[sg], 1)); }
      Vec l1 = traj[sg].evaluate(Teff[sg], 0);
      Vec l2 = traj.evaluate(std::nextafter(bk[i], -INFINITY), 0);
      for (int d = 0; d < D; ++d) {
        ld e1 = fabsl((ld)l1(d) - target(d));
        ctx.maxi(std::string("interp_left_err_") + SplineOf<D, S>::name(), (double)(e1 / sc));
        VCHECK(ctx, e1 <= TAUR * sc, "interp-left",
               rname << " " << SplineOf<D, S>::name() << ": left limit at knot " << i << " coordinate " << d << " is " << g17(l1(d)) << ", waypoint " << g17(target(d)) << " (scale " << lg(sc) << ", N=" << N << ", T=" << g17(Teff[sg]) << ")");
        ld e2 = fabsl((ld)l2(d) - target(d));
        VCHECK(ctx, e2 <= TAUR * sc + 4 * vs * U, "interp-left-global",
               rname << " " << SplineOf<D, S>::name() << ": evaluation one ulp before knot " << i << " coordinate " << d << " is " << g17(l2(d)) << ", waypoint " << g17(target(d)));
      }
      if (i == N) {
        Vec l3 = traj.evaluate(bk[N], 0), l4 = traj.evaluate(sp.getEndTime(), 0);
        for (int d = 0; d < D; ++d)
          VCHECK(ctx, fabsl((ld)l3(d) - target(d)) <= TAUR * sc + 4 * vs * U && same_val(l3(d), l4(d)), "interp-end",
                 rname << " " << SplineOf<D, S>::name() << ": evaluation at the end time coordinate " << d << " is " << g17(l3(d)) << ", last waypoint " << g17(target(d)));
      }
    }
  }
  // ---- (b) boundary derivatives at the first knot (right limit) and last knot (left limit)
  for (int m = 1; m < S; ++m) {
    Vec bs = c.bc_field(false, m), be = c.bc_field(true, m);
    Vec a1 = traj[0].evaluate(0.0, m), a2 = traj.evaluate(bk[0], m);
    Vec e1 = traj[N - 1].evaluate(Teff[N - 1], m);
    for (int d = 0; d < D; ++d) {
      ld scs = std::max(fabsl((ld)bs(d)), seg_abs_scale(C, 0, nc, d, (ld)Teff[0], m));
      ld sce = std::max(fabsl((ld)be(d)), seg_abs_scale(C, N - 1, nc, d, (ld)Teff[N - 1], m));
      // the scale of derivative m is at least (position scale)/T^m: the construction cancels terms of that size
      scs = std::max(scs, (ld)c.M / RefSpline::ipow(Teff[0], m));
      sce = std::max(sce, (ld)c.M / RefSpline::ipow(Teff[N - 1], m));
      ld es = std::max(fabsl((ld)a1(d) - bs(d)), fabsl((ld)a2(d) - bs(d))), ee = fabsl((ld)e1(d) - be(d));
      ctx.maxi(std::string("boundary_err_") + SplineOf<D, S>::name(), (double)std::max(es / scs, ee / sce));
      VCHECK(ctx, es <= TAUR * scs, "boundary-start",
             rname << " " << SplineOf<D, S>::name() << ": derivative " << m << " at the first knot, coordinate " << d << " is " << g17(a1(d)) << " but the supplied start state is " << g17(bs(d)) << " (N=" << N << ")");
      VCHECK(ctx, ee <= TAUR * sce, "boundary-end",
             rname << " " << SplineOf<D, S>::name() << ": derivative " << m << " at the last knot, coordinate " << d << " is " << g17(e1(d)) << " but the supplied end state is " << g17(be(d)) << " (N=" << N << ", scale " << lg(sce) << ")");
    }
  }
  // ---- (c) durations-plus-start vs absolute time points
  {
    Spline other = by_points ? Spline(c.T, c.P, c.t0, lib) : Spline(tp, c.P, lib);
    const auto& C2 = other.getTrajectory().getCoefficients();
    if (dyadic) {
      VCHECK(ctx, mat_same_bits(C, C2), "time-spec-equivalence",
             SplineOf<D, S>::name() << ": with exactly representable times the two time specifications give different coefficients: " << first_diff(C, C2) << " (N=" << N << ", t0=" << g17(c.t0) << ")");
      VCHECK(ctx, other.getCumulativeTimes() == sp.getCumulativeTimes() && other.getStartTime() == sp.getStartTime() && other.getEndTime() == sp.getEndTime() && other.getTimeSegments() == sp.getTimeSegments(),
             "time-spec-equivalence", SplineOf<D, S>::name() << ": with exactly representable times the two time specifications report different knot times / durations (N=" << N << ", t0=" << g17(c.t0) << ")");
      ctx.label("timespec:dyadic-bitwise");
    } else {
      double tmin = *std::min_element(c.T.begin(), c.T.end());
      // the time points are rounded: the durations the point route sees differ from the given ones by up to ulp(t_max), a relative
      // perturbation U/T_min of the shortest duration, which the solve amplifies by up to the duration ratio.  That effect is part of the
      // allowance (it is not an error of the library); the comparison is judged only where it stays small.
      const ld pert = 64.0L * (ld)(U / tmin) * (ld)c.ratio;
      if (pert <= 1e-6L) {
        for (int i = 0; i < N; ++i)
          for (int d = 0; d < D; ++d) {
            ld sc = std::max<ld>(c.M, seg_abs_scale(C, i, nc, d, (ld)c.T[i], 0));
            for (int k = 0; k < nc; ++k) {
              ld e = fabsl((ld)C(i * nc + k, d) - (ld)C2(i * nc + k, d)) * RefSpline::ipow(c.T[i], k);
              VCHECK(ctx, e <= (TAUF + pert) * sc, "time-spec-equivalence",
                     SplineOf<D, S>::name() << ": the two time specifications give different coefficient (" << i << "," << k << "," << d << "): " << g17(C(i * nc + k, d)) << " vs " << g17(C2(i * nc + k, d)) << " (N=" << N << ")");
            }
          }
        ctx.label("timespec:generic-within-tol");
      } else ctx.label("timespec:generic-not-judged(time quantisation)");
      if (mat_same_bits(C, C2)) ctx.label("timespec:bitwise-equal"); else ctx.label("timespec:not-bitwise");
    }
  }
}

// ===================================================================================== C02
struct Perturb {  // admissible perturbation: per segment 2s coefficients per scalar (one scalar field, applied to every dimension with a weight)
  std::vector<std::vector<ld>> e;  // [segment][k]
};

// Hermite piece of degree 2s-1 on [0,T] from derivatives of orders 0..s-1 at both ends
inline std::vector<ld> hermite_piece(int s, ld T, const std::vector<ld>& d0, const std::vector<ld>& d1) {
  int nc = 2 * s;
  std::vector<ld> e(nc, 0);
  // normalised variable u = t/T:  q(u) = sum a_k u^k, a_k = e_k T^k
  std::vector<ld> a(nc, 0);
  for (int k = 0; k < s; ++k) a[k] = d0[k] * RefSpline::ipow(T, k) / ff(k, k);
  MatL Mx(s, s); VecL rhs(s);
  for (int m = 0; m < s; ++m) {
    ld r = d1[m] * RefSpline::ipow(T, m);
    for (int k = m; k < s; ++k) r -= ff(k, m) * a[k];
    rhs(m) = r;
    for (int k = s; k < nc; ++k) Mx(m, k - s) = ff(k, m);
  }
  VecL x = Mx.fullPivLu().solve(rhs);
  for (int k = s; k < nc; ++k) a[k] = x(k - s);
  for (int k = 0; k < nc; ++k) e[k] = a[k] / RefSpline::ipow(T, k);
  return e;
}

// exact integral over [0,T] of  a^(s)(t) * b^(s)(t)
inline ld inner_s(const ld* a, const ld* b, int s, ld T) {
  int nc = 2 * s; ld r = 0;
  for (int j = s; j < nc; ++j) for (int k = s; k < nc; ++k) { int p = j + k - 2 * s + 1; r += ff(j, s) * ff(k, s) * a[j] * b[k] * RefSpline::ipow(T, p) / (ld)p; }
  return r;
}

template <int S>
void c02_body(Tape& t, Ctx& ctx, SplineCase<D>& c, bool enumerated) {
  using Spline = typename SplineOf<D, S>::type;
  constexpr int nc = 2 * S;
  const int N = c.N;
  // route: fresh object through either time specification, or an object that previously solved a LARGER problem
  // or an object that held the SAME problem except for one ingredient (boundary argument / waypoints / durations)
  int route = t.pickw({2, 2, 2, 2});
  Spline sp;
  if (route == 0) sp = Spline(c.T, c.P, c.t0, c.bc);
  else if (route == 1) sp = Spline(c.time_points(), c.P, c.bc);
  else if (route == 3) {
    SplineCase<D> old = c;
    SplineCase<D> alt; alt.s = S; alt.N = N;
    gen_durations(t, alt.N, wellscaled_ratio(S), alt.T, &alt.sigma, &alt.ratio, &alt.dur_shape, &alt.shape);
    alt.t0 = c.t0; gen_data(t, alt);
    int what = t.range(0, 2);
    if (what == 0) {
      old.bc = alt.bc;
      int v = t.range(0, 2);
      if (v == 1) old.bc = BoundaryConditions<D>();
      else if (v == 2) { old.bc = c.bc; bool e = t.flag(); int m = t.range(1, 3); old.bc_field(e, m) = alt.bc_field(e, m); }   // exactly one boundary field differs
    }
    else if (what == 1) old.P = alt.P;
    else { old.T = alt.T; if (t.flag() && N >= 2) { old.T = c.T; std::rotate(old.T.begin(), old.T.begin() + 1, old.T.end()); } }
    bool pts = t.flag();
    sp = pts ? Spline(old.time_points(), old.P, old.bc) : Spline(old.T, old.P, old.t0, old.bc);
    if (t.chance(1, 2)) (void)sp.getEnergy();
    if (t.chance(3, 4) ? pts : !pts) sp.update(c.time_points(), c.P, c.bc); else sp.update(c.T, c.P, c.t0, c.bc);
  }
  else {
    SplineCase<D> old;
    old.s = S; old.N = N + 1 + t.range(0, 4);
    gen_durations(t, old.N, wellscaled_ratio(S), old.T, &old.sigma, &old.ratio, &old.dur_shape, &old.shape);
    old.t0 = 0;
    gen_data(t, old);
    if (t.chance(1, 3)) old = extend_case(t, c, old.N - N);   // the new problem is a bit-equal prefix of the larger one (trajectory truncated)
    sp = Spline(old.T, old.P, old.t0, old.bc);
    if (t.flag()) sp.update(c.T, c.P, c.t0, c.bc); else sp.update(c.time_points(), c.P, c.bc);
  }
  ctx.label(route == 0 ? "route:fresh(durations)" : (route == 1 ? "route:fresh(time points)" : (route == 3 ? "route:reused-after-same-problem-but-one-ingredient" : "route:reused-after-larger-problem")));
  // use the durations the spline reports (time-point route rounds them)
  SplineCase<D> ce = c;
  ce.T = sp.getTimeSegments();
  const auto& C = sp.getTrajectory().getCoefficients();
  ctx.label(std::string("order:") + SplineOf<D, S>::name());
  ctx.label(N == 1 ? "N=1" : (N == 2 ? "N=2" : "N>=3"));
  ctx.label("shape:" + c.dur_shape);
  if (ctx.want_desc) ctx.desc << c.describe();
  ctx.nontrivial = N >= 2;
  // (A) differential against the dense long-double minimiser
  if (N <= 24) {
    RefSpline ref;
    ref.solve_problem(ce.ref_problem());
    if (!ref.ok) { ctx.label("oracle-inconclusive(R2 residual)"); }
    else {
      for (int i = 0; i < N; ++i)
        for (int d = 0; d < D; ++d) {
          ld sc = c.M;
          for (int k = 0; k < nc; ++k) sc = std::max(sc, fabsl(ref.C(i * nc + k, d)) * RefSpline::ipow(ce.T[i], k));
          for (int k = 0; k < nc; ++k) {
            ld e = fabsl((ld)C(i * nc + k, d) - ref.C(i * nc + k, d)) * RefSpline::ipow(ce.T[i], k);
            ctx.maxi(std::string("coef_err_") + SplineOf<D, S>::name(), (double)(e / sc));
            VCHECK(ctx, e <= tau_fwd(S) * sc, "coefficients-vs-minimiser",
                   SplineOf<D, S>::name() << " N=" << N << " dim=" << D << ": coefficient (segment " << i << ", power " << k << ", coordinate " << d << ") = " << g17(C(i * nc + k, d)) << " but the dense solve of the optimality conditions gives "
                                          << lg(ref.C(i * nc + k, d)) << " (normalised error " << lg(e / sc) << ", durations " << c.dur_shape << " ratio " << g6(c.ratio) << ")");
          }
        }
      ctx.label("oracle:R2");
    }
  }
  // (B) continuity of derivatives 1..2s-2 at interior knots
  {
    // floor 1e-3 of the natural magnitude: with 1e-6 the achievable relative precision is eps/1e-6 = 2e-10, above the cubic limit
    Residuals R = spline_residuals<D>(C, ce, 1e-3L);
    const ld tau_cont = S == 2 ? 1e-10L : (S == 3 ? 1e-7L : 1e-5L);
    for (int m = 1; m <= 2 * S - 2; ++m) {
      ctx.maxi(std::string("jump_") + SplineOf<D, S>::name(), (double)R.cont[m]);
      VCHECK(ctx, R.cont[m] <= tau_cont, "continuity",
             SplineOf<D, S>::name() << " N=" << N << ": derivative " << m << " jumps at interior knot " << R.cont_knot[m] << " by " << lg(R.cont[m]) << " (scaled; limit " << lg(tau_cont) << "), durations " << c.dur_shape << " ratio " << g6(c.ratio));
    }
    VCHECK(ctx, R.interp <= 1e-6L && R.boundary <= 1e-4L, "constraints", SplineOf<D, S>::name() << " N=" << N << ": interpolation/boundary residual " << lg(R.interp) << " / " << lg(R.boundary));
  }
  // (C) variational: first variation vanishes for admissible perturbations with non-zero derivatives at interior knots
  if (N >= 1) {
    int np = enumerated ? 2 : 1;
    for (int rep = 0; rep < np; ++rep) {
      // knot derivative data of delta: zero value at every knot, zero derivatives (m<s) at both ends, generated derivatives at interior knots
      std::vector<std::vector<ld>> kd(N + 1, std::vector<ld>(S, 0));
      for (int j = 1; j < N; ++j) for (int m = 1; m < S; ++m) kd[j][m] = (ld)t.sym(64) / 16 / RefSpline::ipow(c.sigma, m);
      if (N == 1) { /* only the zero perturbation is admissible for N=1 in this family; handled by (A) */ }
      std::vector<std::vector<ld>> de(N);
      ld Edelta = 0;
      for (int i = 0; i < N; ++i) { de[i] = hermite_piece(S, ce.T[i], kd[i], kd[i + 1]); Edelta += inner_s(de[i].data(), de[i].data(), S, ce.T[i]); }
      if (Edelta <= 0) continue;
      // weights per dimension
      ld w[D]; for (int d = 0; d < D; ++d) w[d] = (ld)(1 + t.range(0, 7)) / 4 * (t.flag() ? 1 : -1);
      ld first = 0, Ex = 0, Ed = 0;
      for (int d = 0; d < D; ++d) {
        for (int i = 0; i < N; ++i) {
          ld xc[nc]; for (int k = 0; k < nc; ++k) xc[k] = C(i * nc + k, d);
          first += w[d] * inner_s(xc, de[i].data(), S, ce.T[i]);
          Ex += inner_s(xc, xc, S, ce.T[i]);
        }
        Ed += w[d] * w[d] * Edelta;
      }
      if (Ex > 0) {
        ld nv = fabsl(first) / sqrtl(Ex * Ed);
        ctx.maxi(std::string("first_variation_") + SplineOf<D, S>::name(), (double)nv);
        VCHECK(ctx, nv <= 1e-8L, "first-variation",
               SplineOf<D, S>::name() << " N=" << N << ": the energy's first variation along an admissible perturbation is " << lg(nv) << " (normalised), so the spline is not the minimiser; durations " << c.dur_shape << " ratio " << g6(c.ratio));
        // hence E(x + eps delta) >= E(x)(1 - 1e-8) for eps in {+-1, +-2^-8}
        for (ld eps : {1.0L, -1.0L, 1.0L / 256, -1.0L / 256}) {
          ld Enew = Ex + 2 * eps * first + eps * eps * Ed;
          VCHECK(ctx, Enew >= Ex * (1 - 1e-8L), "energy-not-minimal", SplineOf<D, S>::name() << " N=" << N << ": a perturbed admissible curve has lower energy: " << lg(Enew) << " < " << lg(Ex));
        }
        ctx.label("oracle:variational");
      }
    }
  }
}

template <int S>
void c02_case(Tape& t, Ctx& ctx) {
  SplineCase<D> c = gen_spline_case<D>(t, S, wellscaled_ratio(S));
  c02_body<S>(t, ctx, c, false);
}

// enumerated structures: order x N in 1..10 x duration shape x position of the extreme entry, ratio at the domain edge
constexpr uint64_t c02e_per_order() { uint64_t n = 0; for (int N = 1; N <= 10; ++N) n += 1 + N + N + 2 + 2; return n; }
constexpr uint64_t c02e_total() { return 3 * c02e_per_order(); }
void c02e_check(Tape& t, Ctx& ctx) {
  uint64_t idx = t.raw() % c02e_total();
  int s = 2 + (int)(idx % 3); idx /= 3;
  int N = 1;
  for (; N <= 10; ++N) { uint64_t cnt = 1 + N + N + 2 + 2; if (idx < cnt) break; idx -= cnt; }
  int shape, pos = 0, var = 0;
  if (idx < 1) shape = 0;
  else if ((idx -= 1) < (uint64_t)N) { shape = 1; pos = (int)idx; }
  else if ((idx -= N) < (uint64_t)N) { shape = 2; pos = (int)idx; }
  else if ((idx -= N) < 2) { shape = 3; var = (int)idx; }
  else { idx -= 2; shape = 4; var = (int)idx; }
  SplineCase<D> c;
  c.s = s; c.N = N;
  double R = wellscaled_ratio(s);
  double lo = 1 / std::sqrt(R), hi = std::sqrt(R);
  c.sigma = std::exp2(t.sym(26) / 8.0);
  c.T.assign(N, c.sigma);
  static const char* names[] = {"all-equal", "one-short-among-long", "one-long-among-short", "alternating", "geometric-ramp"};
  for (int i = 0; i < N; ++i) {
    double rho = 1;
    if (shape == 1) rho = (i == pos ? lo : hi);
    else if (shape == 2) rho = (i == pos ? hi : lo);
    else if (shape == 3) rho = (((i & 1) != 0) == (var != 0)) ? lo : hi;
    else if (shape == 4) { double f = N == 1 ? 0.5 : (double)i / (N - 1); if (var) f = 1 - f; rho = lo * std::pow(R, f); }
    c.T[i] = c.sigma * rho;
  }
  c.dur_shape = names[shape]; c.shape = shape;
  { double mn = c.T[0], mx = c.T[0]; for (double x : c.T) { mn = std::min(mn, x); mx = std::max(mx, x); } c.ratio = mx / mn; }
  c.t0 = gen_start_time(t);
  gen_data(t, c);
  ctx.label("enumerated-structure");
  with_order(s, [&](auto tag) { c02_body<decltype(tag)::s>(t, ctx, c, true); });
}

// ===================================================================================== C04
template <int S>
void c04_case(Tape& t, Ctx& ctx) {
  using Spline = typename SplineOf<D, S>::type;
  using Spline1 = typename SplineOf<1, S>::type;
  constexpr int nc = 2 * S;
  int kind = t.pickw({10, 2, 2});
  ctx.label(std::string("order:") + SplineOf<D, S>::name());
  const ld TAU_E = 1e-11L;
  if (kind == 0) {
    // any positive durations, sigma*rho in [1e-3, 1e3]
    SplineCase<D> c;
    c.s = S; c.N = gen_N(t);
    gen_durations(t, c.N, 1e4, c.T, &c.sigma, &c.ratio, &c.dur_shape, &c.shape);
    c.t0 = gen_start_time(t);
    // "any scale": a quarter of the cases move the whole time axis by 10^k, k in -8..-3 and 3..5 (the data's boundary
    // derivatives follow sigma); the start time then stays small enough for the knot times to resolve the durations
    if (t.chance(1, 4)) {
      static const int kExp[] = {-8, -7, -6, -5, -4, -3, 3, 4, 5};
      int e = kExp[t.range(0, 8)];
      double f = std::pow(10.0, e);
      for (double& x : c.T) x *= f;
      c.sigma *= f;
      if (e < 0) c.t0 = t.flag() ? 0.0 : c.T[0] * t.range(-8, 8);
      ctx.label(e < 0 ? "time-axis:tiny" : "time-axis:huge");
    }
    gen_data(t, c);
    const int N = c.N;
    // history: fresh object, or an object that answered getEnergy for another problem and was then updated (either overload)
    int hist = t.range(0, 2);
    std::unique_ptr<Spline> sp;
    if (hist == 0) sp.reset(new Spline(c.T, c.P, c.t0, c.bc));
    else {
      SplineCase<D> old = gen_spline_case<D>(t, S, 4.0, 6, 8);
      sp.reset(new Spline(old.T, old.P, old.t0, old.bc));
      (void)sp->getEnergy();
      if (hist == 1) sp->update(c.T, c.P, c.t0, c.bc); else sp->update(c.time_points(), c.P, c.bc);
    }
    ctx.label(hist == 0 ? "history:fresh" : (hist == 1 ? "history:energy-then-update(durations)" : "history:energy-then-update(time points)"));
    if (ctx.want_desc) ctx.desc << c.describe() << ", \"history\": " << hist;
    const auto& traj = sp->getTrajectory();
    const auto& C = traj.getCoefficients();
    const auto& bk = traj.getBreakpoints();
    VecL Tl(N);
    for (int i = 0; i < N; ++i) Tl(i) = (ld)bk[i + 1] - (ld)bk[i];
    RefEnergy re = ref_energy(C, Tl, S, D, true);
    double E = sp->getEnergy();
    double U = ulp_of(std::max(std::fabs(bk.front()), std::fabs(bk.back())));
    ld slack = 0;
    for (int i = 0; i < N; ++i) slack += re.dT_abs(i) * 2 * U;  // the integration domain itself is only known to an ulp of the knot times
    ld err = fabsl((ld)E - re.E);
    if (re.abssum > 0 && slack <= 1e-14L * re.abssum) ctx.maxi(std::string("energy_err_") + SplineOf<D, S>::name(), (double)(err / re.abssum));
    VCHECK(ctx, err <= TAU_E * re.abssum + slack, "energy-value",
           SplineOf<D, S>::name() << " N=" << N << " dim=" << D << ": getEnergy()=" << g17(E) << " but the integral of the squared " << S << "-th derivative of the published trajectory is " << lg(re.E) << " (sum of |terms| " << lg(re.abssum) << ")");
    VCHECK(ctx, (ld)E >= -(TAU_E * re.abssum + slack), "energy-negative", SplineOf<D, S>::name() << ": energy " << g17(E) << " is negative beyond rounding");
    VCHECK(ctx, same_val(E, sp->getEnergy()), "energy-repeat", "getEnergy() is not repeatable");
    // sum over the one-dimensional splines built from the columns
    if (D > 1 && N <= 16) {
      ld sum = 0, asum = 0;
      for (int d = 0; d < D; ++d) {
        typename Spline1::MatrixType P1(N + 1, 1);
        for (int i = 0; i <= N; ++i) P1(i, 0) = c.P(i, d);
        BoundaryConditions<1> b1;
        b1.start_velocity(0) = c.bc.start_velocity(d); b1.start_acceleration(0) = c.bc.start_acceleration(d); b1.start_jerk(0) = c.bc.start_jerk(d);
        b1.end_velocity(0) = c.bc.end_velocity(d); b1.end_acceleration(0) = c.bc.end_acceleration(d); b1.end_jerk(0) = c.bc.end_jerk(d);
        Spline1 s1 = (hist == 2) ? Spline1(c.time_points(), P1, b1) : Spline1(c.T, P1, c.t0, b1);
        double e1 = s1.getEnergy();
        sum += e1;
        RefEnergy r1 = ref_energy(s1.getTrajectory().getCoefficients(), Tl, S, 1, false);
        asum += r1.abssum;
      }
      // well-scaled durations only: outside, the D-dim and 1-D solves may differ by their own rounding (that is C13/C18 territory)
      if (c.ratio <= wellscaled_ratio(S)) {
        VCHECK(ctx, fabsl((ld)E - sum) <= 1e-8L * std::max(asum, re.abssum) + slack, "energy-sum-of-dimensions",
               SplineOf<D, S>::name() << " N=" << N << ": energy " << g17(E) << " differs from the sum of the energies of the " << D << " one-dimensional splines " << lg(sum));
        ctx.label("sum-of-dimensions-checked");
      }
    }
    ctx.nontrivial = re.E > 1e-6L * re.abssum && re.abssum > 0;
  } else {
    // closed-form anchors (independent of R3): data sampled from a polynomial
    int N = kind == 1 ? 1 : gen_N(t, 8, 10);
    SplineCase<D> c; c.s = S; c.N = N;
    gen_durations(t, N, wellscaled_ratio(S), c.T, &c.sigma, &c.ratio, &c.dur_shape, &c.shape);
    c.t0 = t.chance(1, 2) ? 0.0 : t.sym(80) / 8.0;
    int deg = kind == 1 ? S : t.range(0, S - 1);  // kind 1: x = a t^s/s! on one segment; kind 2: degree < s on N segments
    // polynomial coefficients per dimension (powers of local time from the trajectory start)
    ld pc[D][8] = {{0}};
    for (int d = 0; d < D; ++d)
      for (int k = 0; k <= deg; ++k) pc[d][k] = (kind == 1 && k < S) ? 0 : (ld)t.sym(64) / 16 / RefSpline::ipow(c.sigma, k);
    if (kind == 1) for (int d = 0; d < D; ++d) pc[d][S] /= ff(S, S);  // a/s!
    c.P.resize(N + 1, D);
    ld tt = 0;
    auto pe = [&](int d, ld x, int m) { return ref_poly_eval([&](int k) { return pc[d][k]; }, deg + 1, x, m).value; };
    for (int i = 0; i <= N; ++i) { for (int d = 0; d < D; ++d) c.P(i, d) = (double)pe(d, tt, 0); if (i < N) tt += c.T[i]; }
    ld Ttot = tt;
    for (int m = 1; m <= 3; ++m) for (int d = 0; d < D; ++d) { c.bc_field(false, m)(d) = (double)pe(d, 0, m); c.bc_field(true, m)(d) = (double)pe(d, Ttot, m); }
    Spline sp(c.T, c.P, c.t0, c.bc);
    double E = sp.getEnergy();
    if (ctx.want_desc) ctx.desc << "\"anchor\": \"" << (kind == 1 ? "x = a t^s/s! on one segment" : "polynomial of degree < s") << "\", \"order\": \"" << SplineOf<D, S>::name() << "\", \"N\": " << N << ", \"degree\": " << deg;
    // natural energy scale: sum_i T_i (X / T_i^s)^2 with X the size of the sampled positions
    ld X = 0; for (int i = 0; i <= N; ++i) for (int d = 0; d < D; ++d) X = std::max(X, fabsl((ld)c.P(i, d)));
    for (int d = 0; d < D; ++d) for (int k = 0; k <= deg; ++k) X = std::max(X, fabsl(pc[d][k]) * RefSpline::ipow(Ttot, k));
    ld scaleE = 0; for (int i = 0; i < N; ++i) scaleE += (ld)c.T[i] * (X / RefSpline::ipow(c.T[i], S)) * (X / RefSpline::ipow(c.T[i], S));
    if (kind == 1) {
      ld a2 = 0; for (int d = 0; d < D; ++d) { ld a = pc[d][S] * ff(S, S); a2 += a * a; }
      ld expect = a2 * (ld)c.T[0];
      ctx.maxi("anchor_monomial_err", (double)(fabsl((ld)E - expect) / (expect + 1e-12L * scaleE + 1e-300L)));
      VCHECK(ctx, fabsl((ld)E - expect) <= 1e-9L * expect + 1e-12L * scaleE, "energy-anchor-monomial",
             SplineOf<D, S>::name() << ": one segment sampled from x = a t^s/s! must report E = |a|^2 T = " << lg(expect) << ", got " << g17(E));
      ctx.label("anchor:monomial");
      ctx.nontrivial = a2 > 0;
    } else {
      ctx.maxi(std::string("anchor_zero_energy_") + SplineOf<D, S>::name(), (double)(fabsl((ld)E) / (scaleE + 1e-300L)));
      VCHECK(ctx, fabsl((ld)E) <= 1e-18L * scaleE, "energy-anchor-zero",
             SplineOf<D, S>::name() << " N=" << N << ": data sampled from a polynomial of degree " << deg << " < s must report zero energy, got " << g17(E) << " (natural scale " << lg(scaleE) << ")");
      ctx.label("anchor:degree<s");
      ctx.nontrivial = N >= 2;
    }
  }
}

// ===================================================================================== C18
template <int S>
void c18_case(Tape& t, Ctx& ctx) {
  using Spline = typename SplineOf<D, S>::type;
  SplineCase<D> c;
  c.s = S;
  c.N = std::max(2, gen_N(t, 12, 40));
  const int N = c.N;
  // ratio in [1,100]: pinned values or log-uniform
  static const double pinned[] = {100, 50, 30, 20, 10, 4};
  double ratio = t.chance(1, 2) ? pinned[t.range(0, 5)] : std::exp2(t.range(0, 53) / 8.0);
  if (ratio > 100) ratio = 100;
  double tmin = std::exp2(-t.range(0, 80) / 8.0);  // min T in [1e-3, 1]: everything the optimizer's validity rule accepts
  if (tmin < 1e-3) tmin = 1e-3;
  int shape = t.range(0, 4);
  static const char* names[] = {"one-short-among-long", "one-long-among-short", "alternating", "geometric-ramp", "log-uniform"};
  c.T.assign(N, tmin);
  double lo = tmin, hi = tmin * ratio;
  switch (shape) {
    case 0: { int pos = t.range(0, N - 1); for (int i = 0; i < N; ++i) c.T[i] = (i == pos ? lo : hi); break; }
    case 1: { int pos = t.range(0, N - 1); for (int i = 0; i < N; ++i) c.T[i] = (i == pos ? hi : lo); break; }
    case 2: { bool ph = t.flag(); for (int i = 0; i < N; ++i) c.T[i] = ((((i & 1) != 0) == ph) ? lo : hi); break; }
    case 3: { bool rev = t.flag(); for (int i = 0; i < N; ++i) { double f = (double)i / (N - 1); if (rev) f = 1 - f; c.T[i] = lo * std::pow(ratio, f); } break; }
    default: {
      for (int i = 0; i < N; ++i) c.T[i] = lo * std::pow(ratio, t.range(0, 64) / 64.0);
      int a = t.range(0, N - 1), b = t.range(0, N - 1); if (a == b) b = (a + 1) % N;
      c.T[a] = lo; c.T[b] = hi;
      break;
    }
  }
  c.dur_shape = names[shape]; c.shape = shape;
  { double mn = c.T[0], mx = c.T[0]; for (double x : c.T) { mn = std::min(mn, x); mx = std::max(mx, x); } c.ratio = mx / mn; }
  c.sigma = std::sqrt(lo * hi);
  c.t0 = t.flag() ? 0.0 : gen_start_time(t);   // the defining equations are about local times: the start time must not matter
  if (c.t0 != 0) ctx.label("nonzero-start-time");
  gen_data(t, c, false);
  // mostly a fresh object; also through the time-point overload, and an object that held the same problem except for one
  // ingredient (one boundary field / the boundary argument / the waypoints / the order of the durations) before the update
  int route = t.pickw({4, 1, 2});
  Spline sp;
  bool via_points = false;
  if (route == 0) sp = Spline(c.T, c.P, c.t0, c.bc);
  else if (route == 1) { sp = Spline(c.time_points(), c.P, c.bc); via_points = true; }
  else {
    SplineCase<D> old = c, alt = c;
    gen_data(t, alt, false);
    int what = t.range(0, 4);
    if (what == 4) old = extend_case(t, c, 1 + t.range(0, 2));   // truncation: the durations and waypoints kept are bit-equal
    else if (what == 0) old.bc = alt.bc;
    else if (what == 1) { bool e = t.flag(); int m = t.range(1, 3); old.bc_field(e, m) = alt.bc_field(e, m); if (old.bc_field(e, m) == c.bc_field(e, m)) old.bc_field(e, m)(0) += 1.0 / c.sigma; }
    else if (what == 2) old.P = alt.P;
    else if (what == 3) std::rotate(old.T.begin(), old.T.begin() + 1, old.T.end());
    via_points = t.flag();
    if (via_points) { sp = Spline(old.time_points(), old.P, old.bc); sp.update(c.time_points(), c.P, c.bc); }
    else { sp = Spline(old.T, old.P, old.t0, old.bc); sp.update(c.T, c.P, c.t0, c.bc); }
  }
  ctx.label(route == 0 ? "route:fresh(durations)" : (route == 1 ? "route:fresh(time points)" : "route:reused-after-same-problem-but-one-ingredient"));
  if (via_points) c.T = sp.getTimeSegments();
  const auto& C = sp.getTrajectory().getCoefficients();
  Residuals R = spline_residuals<D>(C, c);
  ctx.label(std::string("order:") + SplineOf<D, S>::name());
  ctx.label("shape:" + c.dur_shape);
  ctx.label(c.ratio >= 50 ? "ratio>=50" : (c.ratio >= 10 ? "ratio10..50" : "ratio<10"));
  if (ctx.want_desc) ctx.desc << c.describe() << ", \"residuals\": \"" << R.worst() << "\"";
  ctx.nontrivial = c.ratio >= 10 && N >= 3;
  static const ld LIMIT = std::getenv("VERIF_DEBUG_C18_LIMIT") ? (ld)std::atof(std::getenv("VERIF_DEBUG_C18_LIMIT")) : 1e-3L;  // debug override only; never set by the driver
  std::string who = std::string(SplineOf<D, S>::name()) + " dim=" + std::to_string(D) + " N=" + std::to_string(N) + " durations " + c.dur_shape + " ratio " + g6(c.ratio) + " minT " + g6(lo);
  ctx.maxi(std::string("interp_") + SplineOf<D, S>::name(), (double)R.interp);
  ctx.maxi(std::string("boundary_") + SplineOf<D, S>::name(), (double)R.boundary);
  VCHECK(ctx, R.interp <= LIMIT, "interpolation", who << ": scaled interpolation residual " << lg(R.interp) << " at segment " << R.interp_seg << " exceeds 1e-3");
  VCHECK(ctx, R.boundary <= LIMIT, "boundary", who << ": scaled boundary-state residual " << lg(R.boundary) << " exceeds 1e-3");
  // known finding F1: septic, continuity of derivative orders 4..6, duration ratio above the listed bound
  double f1_ratio = ctx.kf("F1", "ratio_gt");
  for (int m = 1; m <= 2 * S - 2; ++m) {
    bool in_f1 = (S == 4 && m >= 4 && m <= 6 && !std::isnan(f1_ratio) && c.ratio > f1_ratio);
    if (!in_f1) ctx.maxi(std::string("jump_d") + std::to_string(m) + "_" + SplineOf<D, S>::name(), (double)R.cont[m]);
    if (R.cont[m] > LIMIT) {
      if (in_f1) {
        ctx.known_hit("F1", who + ": derivative " + std::to_string(m) + " jumps by " + lg(R.cont[m]) + " (scaled) at knot " + std::to_string(R.cont_knot[m]));
        continue;
      }
      VFAIL(ctx, "continuity-d" + std::to_string(m), who << ": derivative " << m << " jumps at interior knot " << R.cont_knot[m] << " by " << lg(R.cont[m]) << " (scaled), limit 1e-3");
    }
  }
}


// ---- C18g: guided search (hill climbing over the duration genome, neighbours generated from the tape, no gradient) for the worst residual
// under a cap on the duration ratio; the final configuration is judged exactly like a C18 case.  Its per-cap maxima locate where residuals cross the limit.
template <int S>
void c18g_case(Tape& t, Ctx& ctx) {
  using Spline = typename SplineOf<D, S>::type;
  SplineCase<D> c;
  c.s = S;
  c.N = t.range(2, 12);
  const int N = c.N;
  static const double caps[] = {100, 64, 50, 40, 36, 32, 28, 24, 20, 16};
  double cap = caps[t.range(0, 9)];
  double tmin = std::exp2(-t.range(0, 80) / 8.0);
  if (tmin < 1e-3) tmin = 1e-3;
  std::vector<double> u(N, 1.0);
  int shape = t.range(0, 3);
  if (shape == 0) u[t.range(0, N - 1)] = 0.0;                       // one short among long
  else if (shape == 1) { std::fill(u.begin(), u.end(), 0.0); u[t.range(0, N - 1)] = 1.0; }
  else if (shape == 2) for (int i = 0; i < N; ++i) u[i] = (i & 1) ? 1.0 : 0.0;
  else for (int i = 0; i < N; ++i) u[i] = t.range(0, 16) / 16.0;
  c.t0 = 0; c.sigma = tmin * std::sqrt(cap);
  c.T.assign(N, tmin);
  auto setT = [&](const std::vector<double>& uu) { for (int i = 0; i < N; ++i) c.T[i] = tmin * std::pow(cap, uu[i]); };
  setT(u);
  gen_data(t, c, false);
  auto objective = [&](Residuals* out) {
    Spline sp(c.T, c.P, c.t0, c.bc);
    Residuals R = spline_residuals<D>(sp.getTrajectory().getCoefficients(), c);
    if (out) *out = R;
    ld worst = std::max(R.interp, R.boundary);
    for (int m = 1; m <= 2 * S - 2; ++m) worst = std::max(worst, R.cont[m]);
    return worst;
  };
  ld best = objective(nullptr);
  int steps = 120, accepted = 0;
  for (int k = 0; k < steps; ++k) {
    std::vector<double> v = u;
    int i = t.range(0, N - 1);
    int mv = t.range(0, 5);
    double st = (1 + t.range(0, 7)) / 32.0;
    if (mv == 0) v[i] = 0; else if (mv == 1) v[i] = 1; else if (mv == 2 || mv == 3) v[i] = std::min(1.0, v[i] + st); else v[i] = std::max(0.0, v[i] - st);
    setT(v);
    ld val = objective(nullptr);
    if (val > best) { best = val; u = v; ++accepted; } else setT(u);
  }
  setT(u);
  { double mn = c.T[0], mx = c.T[0]; for (double x : c.T) { mn = std::min(mn, x); mx = std::max(mx, x); } c.ratio = mx / mn; }
  c.dur_shape = "guided-search"; c.shape = 9;
  Residuals R; objective(&R);
  std::string capn = std::to_string((int)cap);
  ctx.label(std::string("order:") + SplineOf<D, S>::name());
  ctx.label("cap:" + capn);
  if (ctx.want_desc) ctx.desc << c.describe() << ", \"cap\": " << cap << ", \"accepted_moves\": " << accepted << ", \"residuals\": \"" << R.worst() << "\"";
  ctx.nontrivial = c.ratio >= 10 && N >= 3;
  std::string who = std::string(SplineOf<D, S>::name()) + " dim=" + std::to_string(D) + " N=" + std::to_string(N) + " guided search (cap " + capn + ") ratio " + g6(c.ratio) + " minT " + g6(tmin);
  ld hi = 0; for (int m = 4; m <= 2 * S - 2; ++m) hi = std::max(hi, R.cont[m]);
  ld lo = std::max(R.interp, R.boundary); for (int m = 1; m <= std::min(3, 2 * S - 2); ++m) lo = std::max(lo, R.cont[m]);
  ctx.maxi(std::string("search_") + SplineOf<D, S>::name() + "_orders<=3_cap" + capn, (double)lo);
  if (S >= 3) ctx.maxi(std::string("search_") + SplineOf<D, S>::name() + "_orders4..6_cap" + capn, (double)hi);
  const ld LIMIT = 1e-3L;
  VCHECK(ctx, R.interp <= LIMIT && R.boundary <= LIMIT, "interpolation", who << ": interpolation/boundary residual " << lg(R.interp) << " / " << lg(R.boundary) << " exceeds 1e-3");
  double f1_ratio = ctx.kf("F1", "ratio_gt");
  for (int m = 1; m <= 2 * S - 2; ++m) {
    if (R.cont[m] <= LIMIT) continue;
    bool in_f1 = (S == 4 && m >= 4 && m <= 6 && !std::isnan(f1_ratio) && c.ratio > f1_ratio);
    if (in_f1) { ctx.known_hit("F1", who + ": derivative " + std::to_string(m) + " jumps by " + lg(R.cont[m]) + " (scaled)"); continue; }
    VFAIL(ctx, "continuity-d" + std::to_string(m), who << ": derivative " << m << " jumps at interior knot " << R.cont_knot[m] << " by " << lg(R.cont[m]) << " (scaled), limit 1e-3; durations " << [&]() { std::string s; for (double x : c.T) s += g6(x) + " "; return s; }());
  }
}
void c18g(Tape& t, Ctx& ctx) {
  int o = t.pickw({6, 3, 1});
  with_order(o == 0 ? 4 : (o == 1 ? 3 : 2), [&](auto tag) { c18g_case<decltype(tag)::s>(t, ctx); });
}

// ===================================================================================== dispatch
void c01(Tape& t, Ctx& ctx) { with_order(2 + t.range(0, 2), [&](auto tag) { c01_case<decltype(tag)::s>(t, ctx); }); }
void c02(Tape& t, Ctx& ctx) { with_order(2 + t.range(0, 2), [&](auto tag) { c02_case<decltype(tag)::s>(t, ctx); }); }
void c04(Tape& t, Ctx& ctx) { with_order(2 + t.range(0, 2), [&](auto tag) { c04_case<decltype(tag)::s>(t, ctx); }); }
void c18(Tape& t, Ctx& ctx) { with_order(2 + t.range(0, 2), [&](auto tag) { c18_case<decltype(tag)::s>(t, ctx); }); }

bool selftest(std::string& msg) {
  // R2: residual of its own solve, agreement of the result with a known closed form (cubic, one segment, zero end velocities)
  for (int s = 2; s <= 4; ++s) {
    RefProblem p; p.s = s; p.N = 3; p.dim = 1;
    p.T.resize(3); p.T << 0.75L, 1.875L, 0.5L;
    p.P.resize(4, 1); p.P << 0.5L, -1.25L, 2.0L, 0.75L;
    p.bcS = MatL::Zero(s - 1, 1); p.bcE = MatL::Zero(s - 1, 1);
    if (s > 1) { p.bcS(0, 0) = 0.25L; p.bcE(0, 0) = -0.125L; }
    RefSpline r; r.solve_problem(p);
    if (!r.ok) { msg = "R2 self-residual too large"; return false; }
    // the solution must satisfy the defining equations (checked through the independent residual function)
    SplineCase<1> c; c.s = s; c.N = 3; c.T = {0.75, 1.875, 0.5}; c.P.resize(4, 1); c.P << 0.5, -1.25, 2.0, 0.75;
    c.bc.start_velocity(0) = 0.25; c.bc.end_velocity(0) = -0.125;
    Residuals R = spline_residuals<1>(r.C, c);
    ld worst = std::max(R.interp, R.boundary);
    for (int m = 1; m <= 2 * s - 2; ++m) worst = std::max(worst, R.cont[m]);
    if (worst > 1e-11L) { msg = "R2 solution violates the defining equations: " + R.worst(); return false; }
    // R3 against Gauss-Legendre quadrature of the squared s-th derivative
    RefEnergy e = ref_energy(r.C, p.T, s, 1, true);
    ld q = 0;
    static const ld gx[4] = {0.1834346424956498049394761L, 0.5255324099163289858177390L, 0.7966664774136267395915539L, 0.9602898564975362316835609L};
    static const ld gw[4] = {0.3626837833783619829651504L, 0.3137066458778872873379622L, 0.2223810344533744705443560L, 0.1012285362903762591525314L};
    for (int i = 0; i < 3; ++i) {
      ld h = p.T(i) / 2;
      for (int j = 0; j < 4; ++j) for (int sg = -1; sg <= 1; sg += 2) {
        ld x = h + sg * h * gx[j];
        ld v = ref_poly_eval([&](int k) { return r.C(i * 2 * s + k, 0); }, 2 * s, x, s).value;
        q += gw[j] * h * v * v;
      }
    }
    if (fabsl(q - e.E) > 1e-14L * e.abssum) { msg = "R3 energy disagrees with Gauss-Legendre quadrature"; return false; }
    // R3 partials vs finite differences in long double
    for (int k = 0; k < 2 * s * 3; ++k) {
      MatL Cp = r.C, Cm = r.C; ld h = 1e-7L * (1 + fabsl(r.C(k, 0)));
      Cp(k, 0) += h; Cm(k, 0) -= h;
      ld fd = (ref_energy(Cp, p.T, s, 1, false).E - ref_energy(Cm, p.T, s, 1, false).E) / (2 * h);
      if (fabsl(fd - e.dC(k, 0)) > 1e-9L * (fabsl(e.dC(k, 0)) + e.abssum)) { msg = "R3 dE/dc disagrees with finite differences"; return false; }
    }
  }
  return true;
}

Registrar r01({"C01", "splines dim=" + std::to_string(VDIM), 700, 0, c01, nullptr});
Registrar r02({"C02", "splines dim=" + std::to_string(VDIM), 700, 0, c02, selftest});
Registrar r02e({"C02e", "enumerated duration structures, dim=" + std::to_string(VDIM), 400, c02e_total(), c02e_check, nullptr});
Registrar r04({"C04", "splines dim=" + std::to_string(VDIM), 700, 0, c04, nullptr});
Registrar r18g({"C18g", "guided search, splines dim=" + std::to_string(VDIM), 900, 0, c18g, nullptr});
Registrar r18({"C18", "splines dim=" + std::to_string(VDIM), 700, 0, c18, nullptr});

}  // namespace fwd
