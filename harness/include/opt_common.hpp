// opt_common.hpp - user programs for the optimizer checks (cost functors with exact gradients, time/spatial maps, executors)
// and the reference model R6 of the documented decision-vector layout and cost.
#pragma once
#include "spline_gen.hpp"
#include "SplineOptimizer.hpp"
#include <thread>
#include <mutex>
#include <atomic>

namespace vf {

using SplineTrajectory::OptimizationFlags;
using SplineTrajectory::SplineOptimizer;
using SplineTrajectory::QuadInvTimeMap;
using SplineTrajectory::IdentityTimeMap;
using SplineTrajectory::IdentitySpatialMap;

// ------------------------------------------------------------------------------------------------ live-object registry (C15)
struct LiveRegistry {
  static std::set<const void*>& live() { static std::set<const void*> s; return s; }
  static std::vector<const void*>& used() { static std::vector<const void*> v; return v; }  // `this` of every map method call
  static bool& recording() { static bool r = false; return r; }
  static long& dead_calls() { static long n = 0; return n; }
  static void reg(const void* p) { live().insert(p); }
  static void unreg(const void* p) { live().erase(p); }
  static void touch(const void* p) {
    if (!live().count(p)) ++dead_calls();
    if (recording()) used().push_back(p);
  }
};

// ------------------------------------------------------------------------------------------------ time maps
// run-time configurable, stateful user time map.  kind 0: T = scale*exp(tau); 1: T = scale*softplus(tau); 2: the bundled quadratic-inverse formula
struct UserTimeMap {
  int kind = 0;
  double scale = 1.0;
  uint64_t magic = 0x5151515151515151ull;  // poisoned in the destructor so that a dangling use is visible even without ASan
  UserTimeMap() { LiveRegistry::reg(this); }
  UserTimeMap(int k, double s) : kind(k), scale(s) { LiveRegistry::reg(this); }
  UserTimeMap(const UserTimeMap& o) : kind(o.kind), scale(o.scale) { LiveRegistry::reg(this); }
  UserTimeMap& operator=(const UserTimeMap& o) { kind = o.kind; scale = o.scale; return *this; }
  ~UserTimeMap() { magic = 0; scale = std::numeric_limits<double>::quiet_NaN(); LiveRegistry::unreg(this); }
  double toTime(double tau) const {
    LiveRegistry::touch(this);
    if (kind == 0) return scale * std::exp(tau);
    if (kind == 1) return scale * (tau > 30 ? tau : std::log1p(std::exp(tau)));
    return QuadInvTimeMap().toTime(tau);
  }
  double toTau(double T) const {
    LiveRegistry::touch(this);
    if (kind == 0) return std::log(T / scale);
    if (kind == 1) { double y = T / scale; return y > 30 ? y : std::log(std::expm1(y)); }
    return QuadInvTimeMap().toTau(T);
  }
  double backward(double tau, double T, double gradT) const {
    LiveRegistry::touch(this);
    if (kind == 0) return gradT * T;
    if (kind == 1) return gradT * scale / (1.0 + std::exp(-tau));
    return QuadInvTimeMap().backward(tau, T, gradT);
  }
};

// ------------------------------------------------------------------------------------------------ spatial maps
// per-index kinds: 0 identity (dof DIM), 1 affine full rank (dof DIM), 2 affine with fewer unconstrained coordinates (dof max(1,DIM-1)),
// 3 affine with more (dof DIM+1), 4 sphere p = c + rho*xi/|xi| (dof DIM).  Matrices are a fixed function of (seed, index).
template <int DIM>
struct UserSpatialMap {
  uint32_t seed = 1;
  int kinds_mask = 0x1f;   // which kinds may occur
  uint64_t magic = 0x5151515151515151ull;
  UserSpatialMap() { LiveRegistry::reg(this); }
  UserSpatialMap(uint32_t s, int mask) : seed(s), kinds_mask(mask ? mask : 1) { LiveRegistry::reg(this); }
  UserSpatialMap(const UserSpatialMap& o) : seed(o.seed), kinds_mask(o.kinds_mask) { LiveRegistry::reg(this); }
  UserSpatialMap& operator=(const UserSpatialMap& o) { seed = o.seed; kinds_mask = o.kinds_mask; return *this; }
  ~UserSpatialMap() { magic = 0; seed = 0xdeadbeef; kinds_mask = 0; LiveRegistry::unreg(this); }

  int kind(int index) const {
    uint32_t h = mix32(seed * 2654435761u + (uint32_t)index * 40503u + 17u);
    int avail[5], n = 0;
    for (int k = 0; k < 5; ++k) if (kinds_mask & (1 << k)) avail[n++] = k;
    if (n == 0) return 0;
    return avail[h % (uint32_t)n];
  }
  int dof_of_kind(int k) const { return k == 2 ? std::max(1, DIM - 1) : (k == 3 ? DIM + 1 : DIM); }
  // A (DIM x dof) and b for affine kinds; entries are small dyadic numbers, diagonally dominant
  void affine(int index, Eigen::MatrixXd& A, Eigen::VectorXd& b) const {
    int k = kind(index), dof = dof_of_kind(k);
    A = Eigen::MatrixXd::Zero(DIM, dof); b = Eigen::VectorXd::Zero(DIM);
    for (int r = 0; r < DIM; ++r) {
      for (int c = 0; c < dof; ++c) {
        uint32_t h = mix32(seed + 977u * (uint32_t)index + 31u * (uint32_t)r + 7u * (uint32_t)c + 1u);
        A(r, c) = ((int)(h % 9u) - 4) / 8.0 + ((r == c) ? 2.0 : 0.0);
      }
      uint32_t hb = mix32(seed + 131u * (uint32_t)index + 3u * (uint32_t)r + 99u);
      b(r) = ((int)(hb % 33u) - 16) / 4.0;
    }
  }
  int getUnconstrainedDim(int index) const { LiveRegistry::touch(this); return dof_of_kind(kind(index)); }
  Eigen::VectorXd toPhysical(const Eigen::VectorXd& xi, int index) const {
    LiveRegistry::touch(this);
    int k = kind(index);
    if (k == 0) return xi;
    if (k == 4) { Eigen::VectorXd c; double rho; sphere(index, c, rho); return c + rho * xi / xi.norm(); }
    Eigen::MatrixXd A; Eigen::VectorXd b; affine(index, A, b);
    return A * xi + b;
  }
  Eigen::VectorXd toUnconstrained(const Eigen::VectorXd& p, int index) const {
    LiveRegistry::touch(this);
    int k = kind(index);
    if (k == 0) return p;
    if (k == 4) { Eigen::VectorXd c; double rho; sphere(index, c, rho); Eigen::VectorXd d = p - c; double n = d.norm(); if (n == 0) { d = Eigen::VectorXd::Zero(DIM); d(0) = 1; n = 1; } return d / n * 1.5; }
    Eigen::MatrixXd A; Eigen::VectorXd b; affine(index, A, b);
    return A.completeOrthogonalDecomposition().solve(p - b);  // least squares / minimum norm
  }
  Eigen::VectorXd backwardGrad(const Eigen::VectorXd& xi, const Eigen::VectorXd& grad_p, int index) const {
    LiveRegistry::touch(this);
    int k = kind(index);
    if (k == 0) return grad_p;
    if (k == 4) { Eigen::VectorXd c; double rho; sphere(index, c, rho); double n = xi.norm(); Eigen::VectorXd u = xi / n; return rho / n * (grad_p - u * u.dot(grad_p)); }
    Eigen::MatrixXd A; Eigen::VectorXd b; affine(index, A, b);
    return A.transpose() * grad_p;
  }
  void sphere(int index, Eigen::VectorXd& c, double& rho) const {
    c = Eigen::VectorXd::Zero(DIM);
    for (int r = 0; r < DIM; ++r) c(r) = ((int)(mix32(seed + 59u * (uint32_t)index + (uint32_t)r) % 17u) - 8) / 2.0;
    rho = 1.0 + (mix32(seed + 5u * (uint32_t)index) % 8u) / 4.0;
  }
  // a physical point in the image of the map near p (so that the initial-guess round trip is meaningful for non-surjective maps)
  Eigen::VectorXd project(const Eigen::VectorXd& p, int index) const { return toPhysical(toUnconstrained(p, index), index); }
};

// ------------------------------------------------------------------------------------------------ cost functors (value + exact gradient)
struct TimeCostP {
  double a0 = 0, a1 = 0, b = 0, c = 0, d = 0;  // sum (a0 + a1*(i%3)) T_i + b (sum T)^2 + c sum 1/T_i + d log(sum T)
  int bad_component = -1; double bad_delta = 0;  // C19: perturb one gradient component
  double operator()(const std::vector<double>& Ts, Eigen::VectorXd& grad) const {
    double S = 0; for (double x : Ts) S += x;
    double v = b * S * S + d * std::log(S);
    grad.resize((Eigen::Index)Ts.size());
    for (size_t i = 0; i < Ts.size(); ++i) {
      double ai = a0 + a1 * (double)(i % 3);
      v += ai * Ts[i] + c / Ts[i];
      grad((Eigen::Index)i) = ai + 2 * b * S - c / (Ts[i] * Ts[i]) + d / S;
    }
    if (bad_component >= 0 && bad_component < (int)Ts.size()) grad(bad_component) += bad_delta;
    return v;
  }
};

template <int DIM>
struct WaypointCostP {
  double w0 = 0, w1 = 0, kappa = 0, mu = 0, omega = 1;  // sum 1/2 (w0 + w1*(i%2)) |q_i - r_i|^2 + kappa sum <q_i,q_{i+1}> + mu sum_i sum_d sin(omega q_id)
  double r0 = 0.5;
  // linear deviation from a reference set of waypoints:  lin * sum_i sum_d s(i,d) (q_id - ref_id).  It vanishes EXACTLY at the reference
  // (e.g. at the initial guess) while its gradient does not (a "skip when the cost is zero" shortcut shows only there)
  double lin = 0;
  Eigen::MatrixXd ref;
  // every > 1: a cost on every `every`-th waypoint only, written the way such a functor is written in practice - the rows of the
  // gradient it does not depend on are left untouched (the optimizer hands over a zeroed output matrix)
  int every = 1;
  int bad_row = -1, bad_col = 0; double bad_delta = 0;
  template <class W, class G>
  double operator()(const W& q, G& grad) const {
    double v = 0;
    const int n = (int)q.rows();
    const bool use_lin = lin != 0 && ref.rows() == q.rows() && ref.cols() == q.cols();
    const double kap = every > 1 ? 0.0 : kappa;   // the neighbour coupling needs adjacent rows
    for (int i = 0; i < n; ++i)
      for (int d = 0; d < DIM; ++d) {
        if (every > 1 && i % every != 0) continue;
        double wi = w0 + w1 * (double)(i % 2);
        double r = r0 * (double)((i + d) % 3 - 1);
        double e = q(i, d) - r;
        double g = wi * e + mu * omega * std::cos(omega * q(i, d));
        v += 0.5 * wi * e * e + mu * std::sin(omega * q(i, d));
        if (i + 1 < n) { v += kap * q(i, d) * q(i + 1, d); g += kap * q(i + 1, d); }
        if (i > 0) g += kap * q(i - 1, d);
        if (use_lin) { double sgn = (double)((i + 2 * d) % 3 - 1) + 0.5; v += lin * sgn * (q(i, d) - ref(i, d)); g += lin * sgn; }
        grad(i, d) = g;
      }
    if (bad_row >= 0 && bad_row < n) grad(bad_row, bad_col % DIM) += bad_delta;
    return v;
  }
};

template <int DIM>
struct RunCall {
  int i; double t, tg;
  Eigen::Matrix<double, DIM, 1> p, v, a, j, s;
};

template <int DIM>
struct RunningCostP {
  using Vec = Eigen::Matrix<double, DIM, 1>;
  double wp = 0, wv = 0, wa = 0, wj = 0, ws = 0;  // quadratic weights
  double xpa = 0, xvj = 0;                         // cross terms p.a, v.j
  double obs = 0, ell = 1; Vec o0 = Vec::Zero(), o1 = Vec::Zero();  // moving obstacle
  double sn = 0, omega = 1;                        // sin(omega t_global) * sum v
  double lg = 0;                                   // log(1 + |a|^2)
  double lin_t = 0;                                // + lin_t * t_global  (exactly integrated by the trapezoid rule)
  double cst = 0;                                  // + constant
  double segw = 0;                                 // per-segment weight 1 + segw*(i%3)
  Vec p0 = Vec::Zero();
  int bad_which = -1, bad_dim = 0; double bad_delta = 0;  // C19: 0 gp,1 gv,2 ga,3 gj,4 gs,5 gt
  std::vector<RunCall<DIM>>* record = nullptr;     // C08 (serial executor only)
  double operator()(double t, double tg, int i, const Vec& p, const Vec& v, const Vec& a, const Vec& j, const Vec& s,
                    Vec& gp, Vec& gv, Vec& ga, Vec& gj, Vec& gs, double& gt) const {
    if (record) record->push_back(RunCall<DIM>{i, t, tg, p, v, a, j, s});
    double w = 1.0 + segw * (double)(i % 3);
    Vec dp = p - p0;
    double val = 0.5 * wp * dp.squaredNorm() + 0.5 * wv * v.squaredNorm() + 0.5 * wa * a.squaredNorm() + 0.5 * wj * j.squaredNorm() + 0.5 * ws * s.squaredNorm();
    gp = wp * dp; gv = wv * v; ga = wa * a; gj = wj * j; gs = ws * s; gt = 0;
    val += xpa * p.dot(a) + xvj * v.dot(j);
    gp += xpa * a; ga += xpa * p; gv += xvj * j; gj += xvj * v;
    if (obs != 0) {
      Vec r = p - o0 - o1 * tg;
      double e = obs * std::exp(-r.squaredNorm() / (ell * ell));
      val += e;
      gp += e * (-2.0 / (ell * ell)) * r;
      gt += e * (2.0 / (ell * ell)) * r.dot(o1);
    }
    if (sn != 0) {
      double sv = v.sum();
      val += sn * std::sin(omega * tg) * sv;
      gv += Vec::Constant(sn * std::sin(omega * tg));
      gt += sn * omega * std::cos(omega * tg) * sv;
    }
    if (lg != 0) {
      double q = 1.0 + a.squaredNorm();
      val += lg * std::log(q);
      ga += lg * 2.0 / q * a;
    }
    val += lin_t * tg + cst;
    gt += lin_t;
    val *= w; gp *= w; gv *= w; ga *= w; gj *= w; gs *= w; gt *= w;
    if (bad_which >= 0) {
      int d = bad_dim % DIM;
      switch (bad_which) { case 0: gp(d) += bad_delta; break; case 1: gv(d) += bad_delta; break; case 2: ga(d) += bad_delta; break; case 3: gj(d) += bad_delta; break; case 4: gs(d) += bad_delta; break; default: gt += bad_delta; break; }
    }
    return val;
  }
};

// generated cost programs.  `scale` brings the spline's derivative magnitudes into play: weights of higher derivatives are divided by powers of the time scale
inline TimeCostP gen_time_cost(Tape& t) {
  TimeCostP c;
  c.a0 = t.sym(32) / 8.0; c.a1 = t.sym(16) / 8.0; c.b = t.range(0, 8) / 16.0; c.c = t.range(0, 8) / 8.0; c.d = t.sym(8) / 4.0;
  return c;
}
template <int DIM>
inline WaypointCostP<DIM> gen_waypoint_cost(Tape& t) {
  WaypointCostP<DIM> c;
  c.w0 = t.range(0, 8) / 4.0; c.w1 = t.range(0, 4) / 4.0; c.kappa = t.sym(8) / 8.0; c.mu = t.sym(8) / 4.0; c.omega = (1 + t.range(0, 7)) / 4.0; c.r0 = t.sym(8) / 4.0;
  int lm = t.pickw({4, 2, 2});   // no linear-deviation term / in addition / ONLY the linear-deviation term (value exactly 0 at the reference)
  if (lm >= 1) { int k = t.sym(8); c.lin = (k == 0 ? 3 : k) / 4.0; }
  if (lm == 2) { c.w0 = c.w1 = c.kappa = c.mu = 0; }
  if (t.chance(1, 4)) c.every = 2 + t.range(0, 1);
  return c;
}
template <int DIM>
inline RunningCostP<DIM> gen_running_cost(Tape& t, int S, double tscale) {
  RunningCostP<DIM> c;
  auto wt = [&](int order) { return t.range(0, 8) / 8.0 * std::pow(tscale, 2 * order); };
  c.wp = wt(0); c.wv = wt(1); c.wa = wt(2); c.wj = wt(3); c.ws = (S >= 3) ? wt(4) : wt(4) * (t.flag() ? 1 : 0);
  c.xpa = t.sym(4) / 8.0 * std::pow(tscale, 2); c.xvj = t.sym(4) / 8.0 * std::pow(tscale, 4);
  if (t.flag()) { c.obs = t.sym(8) / 2.0; c.ell = (2 + t.range(0, 6)) / 2.0; for (int d = 0; d < DIM; ++d) { c.o0(d) = t.sym(16) / 4.0; c.o1(d) = t.sym(8) / 8.0; } }
  if (t.flag()) { c.sn = t.sym(8) / 4.0 * tscale; c.omega = (1 + t.range(0, 7)) / 4.0; }
  if (t.flag()) c.lg = t.sym(8) / 4.0;
  c.lin_t = t.sym(8) / 8.0; c.cst = t.sym(8) / 4.0; c.segw = t.range(0, 4) / 8.0;
  for (int d = 0; d < DIM; ++d) c.p0(d) = t.sym(8) / 2.0;
  return c;
}

// ------------------------------------------------------------------------------------------------ executors
// run-time configurable schedule: a permutation of the segment indices, optionally cut into chunks run by separate threads
struct ScheduleExec {
  std::vector<int> perm;        // order in which [start,end) is visited (indices relative to start); empty = ascending
  std::vector<int> cuts;        // chunk boundaries into perm (thread partition); empty = single thread, serial in perm order
  template <class F>
  void operator()(int start, int end, F&& f) const {
    int n = end - start;
    std::vector<int> order(n);
    for (int i = 0; i < n; ++i) order[i] = (i < (int)perm.size() && perm[i] >= 0 && perm[i] < n) ? perm[i] : i;
    if (cuts.empty()) { for (int i = 0; i < n; ++i) f(start + order[i]); return; }
    std::vector<std::thread> th;
    int lo = 0;
    std::vector<int> b = cuts; b.push_back(n);
    for (int hi : b) {
      if (hi > n) hi = n;
      if (hi < lo) hi = lo;
      th.emplace_back([&, lo, hi]() { for (int i = lo; i < hi; ++i) f(start + order[i]); });
      lo = hi;
    }
    for (auto& x : th) x.join();
  }
};

// ------------------------------------------------------------------------------------------------ R6: reference model of the layout
struct LayoutModel {
  int N = 0, dim = 0, S = 2;
  OptimizationFlags flags;
  std::vector<int> point_index, point_offset, point_dof;  // optimised waypoints in index order
  int deriv_offset = 0, total = 0;
  // derivative blocks in documented order: start v,a,j then end v,a,j, gated by the order; value: (end?, order m)
  std::vector<std::pair<bool, int>> dblocks;
  template <class DofFn>
  void build(int N_, int dim_, int S_, const OptimizationFlags& f, DofFn&& dof) {
    N = N_; dim = dim_; S = S_; flags = f;
    point_index.clear(); point_offset.clear(); point_dof.clear(); dblocks.clear();
    int off = N;
    for (int i = 0; i <= N; ++i) {
      bool opt = (i == 0) ? f.start_p : (i == N ? f.end_p : true);
      if (!opt) continue;
      int k = dof(i);
      point_index.push_back(i); point_offset.push_back(off); point_dof.push_back(k);
      off += k;
    }
    deriv_offset = off;
    if (f.start_v) dblocks.push_back({false, 1});
    if (S >= 3 && f.start_a) dblocks.push_back({false, 2});
    if (S >= 4 && f.start_j) dblocks.push_back({false, 3});
    if (f.end_v) dblocks.push_back({true, 1});
    if (S >= 3 && f.end_a) dblocks.push_back({true, 2});
    if (S >= 4 && f.end_j) dblocks.push_back({true, 3});
    total = off + (int)dblocks.size() * dim;
  }
};

inline OptimizationFlags flags_from_bits(unsigned b) {
  OptimizationFlags f;
  f.start_p = b & 1; f.start_v = b & 2; f.start_a = b & 4; f.start_j = b & 8;
  f.end_p = b & 16; f.end_v = b & 32; f.end_a = b & 64; f.end_j = b & 128;
  return f;
}
inline std::string flags_str(unsigned b) {
  static const char* n[] = {"start_p", "start_v", "start_a", "start_j", "end_p", "end_v", "end_a", "end_j"};
  std::string s;
  for (int i = 0; i < 8; ++i) if (b & (1u << i)) { if (!s.empty()) s += "+"; s += n[i]; }
  return s.empty() ? "none" : s;
}

}  // namespace vf
