#!/bin/bash
# Sensitivity self-test: run every stored seeded change against the quick check of the property it breaks, on a scratch copy of
# /repo's current HEAD (outside /repo and /verif, removed afterwards), and record in seeded/<id>/meta.json which check caught it.
# usage: seeds_all.sh [id ...]
cd /verif
ids=${@:-$(ls seeded)}
W=$(mktemp -d /tmp/st-verif-seeds.XXXXXX)
trap 'git -C /repo worktree remove --force $W/repo 2>/dev/null; rm -rf $W' EXIT
git -C /repo worktree add -q --detach $W/repo HEAD || exit 2
export VERIF_REPO=$W/repo VERIF_BUILD=$W/build VERIF_REPLAYS=$W/replays VERIF_EVID=$W/evidence
for id in $ids; do
  d=seeded/$id
  [ -f $d/patch.diff ] || continue
  prop=${id%%-*}
  P=$PWD/$d/patch.diff
  [ -f $d/patch_on_current_tree.diff ] && P=$PWD/$d/patch_on_current_tree.diff
  git -C $W/repo checkout -q -- .
  if ! git -C $W/repo apply --check $P 2>/dev/null; then echo "$id: PATCH DOES NOT APPLY to the current tree"; continue; fi
  git -C $W/repo apply $P
  out=$(./run_check.py $prop --tier quick 2>&1); rc=$?
  git -C $W/repo checkout -q -- .
  line=$(echo "$out" | grep -m1 -A1 "^VIOLATION" | tail -1 | cut -c1-300)
  # keep the (shrunk) witness as a committed regression case: it must pass on the unchanged tree and fails on the seeded one
  wit=$(echo "$out" | grep -m1 "^VIOLATION" | sed 's/.*replay=//')
  # (when the first violation is this seed's own committed witness there is nothing to copy - and copying a file onto itself would truncate it)
  if [ -n "$wit" ] && [ -f "$wit" ] && [ "$(readlink -f "$wit")" != "$(readlink -f regress/$prop/seed-$id.case)" ]; then mkdir -p regress/$prop; grep -v "^# message\|^# case" "$wit" | sed "s/^# class .*/# witness of seeded defect $id (passes on the unchanged tree)/" > regress/$prop/seed-$id.case; fi
  echo "$id: rc=$rc $(echo "$out" | grep -c '^VIOLATION') violation line(s): $line"
  python3 - "$d/meta.json" "$prop" "$rc" "$line" "$(basename $P)" <<'PY'
import json,sys
p,prop,rc,line,pf=sys.argv[1:6]
m=json.load(open(p))
m.setdefault("caught_by",{})[prop]={"quick_check_exit":int(rc),"first_violation":line.strip(),"patch_file":pf,"tree":"scratch copy of /repo HEAD (incl. fix commits) with the patch applied"}
json.dump(m,open(p,"w"),indent=1)
PY
done
