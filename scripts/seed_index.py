#!/usr/bin/env python3
"""Write seeded/INDEX.md from the meta.json files: one line per stored seeded change with the files it touches and the
class / first message of the violation the quick check of its property reported (as recorded by scripts/seeds_all.sh)."""
import json, os, re
HERE = os.path.dirname(os.path.dirname(os.path.abspath(__file__)))
rows = []
for d in sorted(os.listdir(os.path.join(HERE, "seeded")), key=lambda s: (s.split("-")[0], int(s.split("-")[1]) if "-" in s and s.split("-")[1].isdigit() else 0)):
    mp = os.path.join(HERE, "seeded", d, "meta.json")
    if not os.path.exists(mp):
        continue
    m = json.load(open(mp))
    prop = m.get("breaks_property", d.split("-")[0])
    cb = m.get("caught_by", {}).get(prop, {})
    rc = cb.get("quick_check_exit")
    msg = (cb.get("first_violation") or "").strip()
    cls = msg.split(":")[0] if msg else ""
    if rc == 1:
        verdict = "caught (%s)" % cls[:60]
    elif rc == 0:
        verdict = "not reported by %s - %s" % (prop, (m.get("note") or m.get("note_on_current_tree") or "see DESIGN.md s6.1")[:220])
    else:
        verdict = "not run"
    rnd = {1: 1, 2: 1, 3: 2, 4: 2, 5: 3, 6: 3, 7: 4, 8: 4}.get(int(d.split("-")[1]), "?")
    rows.append("| %s | %s | %s | %s |" % (d, rnd, " ".join(os.path.basename(f) for f in m.get("files_touched", [])), verdict.replace("|", "\\|")))
with open(os.path.join(HERE, "seeded", "INDEX.md"), "w") as f:
    f.write("# Seeded changes (written by independent sub-agents, confirmed by scripts/confirm_seed.sh, run by scripts/seeds_all.sh)\n\n")
    f.write("Each directory holds patch.diff (patch_on_current_tree.diff where the repair commit moved the context), demo.cpp, notes.md (trigger) and meta.json.\n\n")
    f.write("| id | round | files | quick check of its property |\n|---|---|---|---|\n")
    f.write("\n".join(rows) + "\n")
print(len(rows), "rows")
