#!/usr/bin/env python3
"""Measure which lines of the library's two headers the generated cases execute.

Not a check and not registered in MANIFEST.json: a measurement used while building the generators (DESIGN.md s6.3). A representative
subset of the harness binaries is compiled with clang source-based coverage (no sanitizers) into a scratch directory outside
/verif and /repo, every property of every binary is driven through its rapidcheck front end for a few thousand cases, the profiles are
merged and the lines of /repo/include/*.hpp that NO generated case executed are listed, grouped into ranges.

usage: scripts/coverage.py [cases-per-property]   (default 3000)
"""
import os, re, subprocess, sys, tempfile, shutil, json
from concurrent.futures import ThreadPoolExecutor

HERE = os.path.dirname(os.path.dirname(os.path.abspath(__file__)))
sys.path.insert(0, HERE)
import props_table as PT  # noqa: E402

REPO = os.environ.get("VERIF_REPO", "/repo")
CASES = int(sys.argv[1]) if len(sys.argv) > 1 else 3000
TARGETS = ["timemap", "ppoly_c03_d1", "ppoly_c03_d3", "ppoly_c11_d1", "ppoly_c11_d3", "ppoly_c20_d1", "ppoly_c20_d2", "opt_c16_d2",
           "spline_fwd_d1", "spline_fwd_d3", "spline_fwd_d5", "spline_adj_d1", "spline_adj_d3", "spline_adj_d4", "spline_meta_d2", "spline_meta_d4",
           "opt_layout_o3_d2", "opt_layout_o5_d2", "opt_layout_o7_d2", "opt_cost_o3_d2", "opt_cost_o5_d2", "opt_cost_o7_d2",
           "opt_sched_o3_d2", "opt_sched_o5_d2", "opt_sched_o7_d2"]
PROPS = ["C%02d" % i for i in range(1, 21)] + ["C02e", "C07x", "C09h", "C10o", "C12r", "C16e", "C18g"]
CXX = "clang++"
FLAGS = ["-std=gnu++17", "-g", "-O0", "-fprofile-instr-generate", "-fcoverage-mapping", "-Wno-unused-parameter", "-I" + os.path.join(HERE, "harness/src"),
         "-I" + os.path.join(HERE, "harness/include"), "-I" + os.path.join(REPO, "include"), "-I/usr/include/eigen3"]


def main():
    work = tempfile.mkdtemp(prefix="st-verif-cov.", dir="/tmp")
    try:
        vmain = os.path.join(work, "vmain.o")
        subprocess.run([CXX] + FLAGS + ["-c", os.path.join(HERE, "harness/src/vmain.cpp"), "-o", vmain], check=True)

        def build(n):
            t = PT.TARGETS[n]
            out = os.path.join(work, n)
            cmd = [CXX] + FLAGS + ["-D%s" % d for d in t.get("defs", [])] + [c for c in t.get("cflags", [])] + \
                  [os.path.join(HERE, "harness/src", t["src"]), vmain, "-o", out, "-lrapidcheck", "-pthread"] + t.get("libs", [])
            r = subprocess.run(cmd, capture_output=True, text=True)
            if r.returncode != 0:
                sys.stderr.write(n + ": " + r.stderr[-2000:] + "\n")
                return None
            return out

        with ThreadPoolExecutor(16) as ex:
            bins = [b for b in ex.map(build, TARGETS) if b]

        def run(job):
            exe, prop, k = job
            env = dict(os.environ)
            env["LLVM_PROFILE_FILE"] = os.path.join(work, "%s.%s.profraw" % (os.path.basename(exe), prop))
            env["RC_PARAMS"] = "seed=%d max_success=%d max_size=100 max_discard_ratio=100" % (k + 1, CASES)
            r = subprocess.run([exe, "--prop", prop, "--rc", "--out", os.path.join(work, "o%d.json" % k), "--replay-dir", work],
                               capture_output=True, text=True, env=env)
            return (os.path.basename(exe), prop, r.returncode)

        jobs = [(b, p, i) for i, (b, p) in enumerate((b, p) for b in bins for p in PROPS)]
        with ThreadPoolExecutor(16) as ex:
            res = list(ex.map(run, jobs))
        ran = [(b, p) for b, p, rc in res if rc == 0]
        bad = [(b, p, rc) for b, p, rc in res if rc not in (0, 2)]
        raws = [os.path.join(work, f) for f in os.listdir(work) if f.endswith(".profraw")]
        prof = os.path.join(work, "all.profdata")
        subprocess.run(["llvm-profdata", "merge", "-sparse", "-o", prof] + raws, check=True)
        objs = []
        for b in bins:
            objs += ["-object", b]
        hdrs = [os.path.join(REPO, "include", f) for f in sorted(os.listdir(os.path.join(REPO, "include"))) if f.endswith(".hpp")]
        summary = {"cases_per_property": CASES, "binaries": len(bins), "property_runs": len(ran), "unexpected_exit": bad, "files": {}}
        for h in hdrs:
            r = subprocess.run(["llvm-cov", "show", "-instr-profile", prof, "--show-line-counts", "--show-expansions=0",
                                "--show-instantiations=0", bins[0]] + objs[2:] + [h], capture_output=True, text=True)
            total = cov = 0
            unc = []
            # branch view: conditions that were never true or never false in any generated case
            rb = subprocess.run(["llvm-cov", "show", "-instr-profile", prof, "--show-branches=count", "--show-expansions=0",
                                 "--show-instantiations=0", bins[0]] + objs[2:] + [h], capture_output=True, text=True)
            onesided = []
            src_lines = open(h, errors="replace").read().splitlines()
            agg = {}   # (line, col) -> [ever true, ever false]   (template instantiations are listed separately: merge them)
            for line in rb.stdout.splitlines():
                mb = re.search(r"Branch \((\d+):(\d+)\): \[True: ([0-9.]+[kMGT]?), False: ([0-9.]+[kMGT]?)\]", line)
                if not mb:
                    continue
                key = (int(mb.group(1)), int(mb.group(2)))
                a = agg.setdefault(key, [False, False])
                a[0] = a[0] or mb.group(3) != "0"
                a[1] = a[1] or mb.group(4) != "0"
            nbr = len(agg)
            for (ln, col), (tr, fa) in sorted(agg.items()):
                if not tr and not fa:
                    continue   # in a line that was never executed: already listed above
                if not tr or not fa:
                    onesided.append([ln, "never true" if not tr else "never false", src_lines[ln - 1].strip()[:100] if ln <= len(src_lines) else ""])
            for line in r.stdout.splitlines():
                m = re.match(r"\s*(\d+)\|\s*([0-9.]+[kMG]?)?\|(.*)$", line)
                if not m:
                    continue
                ln, cnt, txt = int(m.group(1)), m.group(2), m.group(3)
                if cnt is None:
                    continue
                total += 1
                if cnt == "0":
                    unc.append((ln, txt.strip()))
                else:
                    cov += 1
            ranges = []
            for ln, txt in unc:
                if ranges and ln <= ranges[-1][1] + 2:
                    ranges[-1][1] = ln
                else:
                    ranges.append([ln, ln, txt[:90]])
            summary["files"][os.path.basename(h)] = {"executable_lines": total, "executed": cov, "not_executed_ranges": ranges,
                                                     "branches": nbr, "one_sided_branches": onesided}
            print("%s: %d of %d executable lines executed by generated cases (%.1f%%)" % (os.path.basename(h), cov, total, 100.0 * cov / max(total, 1)))
            for a, b, txt in ranges:
                print("   %5d-%-5d %s" % (a, b, txt))
            print("   %d branch conditions, %d of them one-sided in executed code:" % (nbr, len(onesided)))
            for ln, what, txt in onesided:
                print("   %5d %-11s %s" % (ln, what, txt))
        json.dump(summary, open(os.path.join(HERE, "coverage_report.json"), "w"), indent=1)
        if bad:
            print("unexpected exit codes:", bad[:10])
    finally:
        shutil.rmtree(work, ignore_errors=True)


if __name__ == "__main__":
    main()
