#!/bin/bash
# usage: seedrun.sh <patch.diff> <prop> [<prop> ...]   apply a seeded change to /repo, run the quick checks, always revert.
set -u
P=$1; shift
cd /verif
# evidence and replays of a seeded run must not overwrite the committed evidence of the unchanged tree
export VERIF_EVID=$(mktemp -d /tmp/st-verif-seedrun.XXXXXX)
git -C /repo diff --quiet || { echo "/repo is dirty; refusing"; exit 2; }
git -C /repo apply "$P" || { echo "patch does not apply"; exit 2; }
trap 'git -C /repo checkout -- . ; rm -rf $VERIF_EVID' EXIT
for prop in "$@"; do
  echo "=== $prop with $(basename $(dirname $P))/$(basename $P)"
  ./run_check.py $prop --tier ${TIER:-quick} 2>&1 | grep -v "^building\|^build finished" | cut -c1-400 | tail -8
  echo "rc=${PIPESTATUS[0]}"
done
