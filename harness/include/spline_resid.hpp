// spline_resid.hpp - defining-equation residuals of a published coefficient set, in long double (used by C02 and C18)
#pragma once
#include "spline_gen.hpp"

namespace vf {

struct Residuals {
  ld interp = 0;            // worst scaled interpolation residual (right end of every segment, left end too)
  ld boundary = 0;          // worst scaled boundary-derivative residual
  ld cont[8] = {0};         // worst scaled jump of derivative m at interior knots, m = 1..2s-2
  int cont_knot[8] = {0};
  int interp_seg = -1;
  std::string worst() const {
    std::ostringstream o;
    o << "interp " << lg(interp) << " boundary " << lg(boundary) << " jumps";
    for (int m = 1; m <= 6; ++m) o << " d" << m << "=" << lg(cont[m]) << "@" << cont_knot[m];
    return o.str();
  }
};

// C: (2s*N) x DIM coefficient matrix (library layout); T: durations; P, bc: the inputs.
template <int DIM, class CoefMat>
inline Residuals spline_residuals(const CoefMat& C, const SplineCase<DIM>& c, ld floor_factor = 1e-6L) {
  const int s = c.s, nc = 2 * s, N = c.N;
  Residuals R;
  // value and abs-sum of derivative m of piece i at local time u, all dims
  auto ev = [&](int i, ld u, int m, ld* out) {
    for (int d = 0; d < DIM; ++d) out[d] = ref_poly_eval([&](int k) { return C(i * nc + k, d); }, nc, u, m).value;
  };
  auto ninf = [&](const ld* v) { ld mx = 0; for (int d = 0; d < DIM; ++d) mx = std::max(mx, fabsl(v[d])); return mx; };
  // Phi_m: largest |x^(m)| over all knot limits
  ld Phi[8] = {0};
  for (int m = 0; m <= 2 * s - 2 && m < 8; ++m)
    for (int i = 0; i < N; ++i) {
      ld a[DIM], b[DIM];
      ev(i, 0, m, a); ev(i, (ld)c.T[i], m, b);
      Phi[m] = std::max(Phi[m], std::max(ninf(a), ninf(b)));
    }
  ld Pmag = 0;
  for (int i = 0; i <= N; ++i) for (int d = 0; d < DIM; ++d) Pmag = std::max(Pmag, fabsl((ld)c.P(i, d)));
  // the data magnitude includes the boundary derivatives, made commensurate with positions through the adjacent duration
  for (int m = 1; m < s; ++m)
    for (int d = 0; d < DIM; ++d) {
      Pmag = std::max(Pmag, fabsl((ld)c.bc_field(false, m)(d)) * RefSpline::ipow(c.T[0], m));
      Pmag = std::max(Pmag, fabsl((ld)c.bc_field(true, m)(d)) * RefSpline::ipow(c.T[N - 1], m));
    }
  // floor tied to the data: the natural magnitude of derivative m is |P|max / Tmin^m; Phi_m is at least that, so that a derivative
  // that happens to vanish at every knot (symmetric or flat data) is not judged relative to its own rounding noise
  ld Tmin = c.T[0]; for (double x : c.T) Tmin = std::min<ld>(Tmin, x);
  for (int m = 1; m < 8; ++m) Phi[m] = std::max(Phi[m], Pmag / RefSpline::ipow(Tmin, m));
  auto scaled = [&](const ld* lhs, const ld* rhs, ld floor_) {
    ld diff = 0;
    for (int d = 0; d < DIM; ++d) diff = std::max(diff, fabsl(lhs[d] - rhs[d]));
    ld sc = std::max(std::max(ninf(lhs), ninf(rhs)), floor_);
    if (sc == 0) return (ld)0;
    return diff / sc;
  };
  // interpolation
  for (int i = 0; i < N; ++i) {
    ld l[DIM], r[DIM], p0[DIM], p1[DIM];
    ev(i, 0, 0, l); ev(i, (ld)c.T[i], 0, r);
    for (int d = 0; d < DIM; ++d) { p0[d] = c.P(i, d); p1[d] = c.P(i + 1, d); }
    ld fl = std::max(Pmag, floor_factor * Phi[0]);
    ld r0 = scaled(l, p0, fl), r1 = scaled(r, p1, fl);
    if (std::max(r0, r1) > R.interp) { R.interp = std::max(r0, r1); R.interp_seg = i; }
  }
  // boundary derivatives
  for (int m = 1; m < s; ++m) {
    ld a[DIM], b[DIM], ra[DIM], rb[DIM];
    ev(0, 0, m, a); ev(N - 1, (ld)c.T[N - 1], m, b);
    for (int d = 0; d < DIM; ++d) { ra[d] = c.bc_field(false, m)(d); rb[d] = c.bc_field(true, m)(d); }
    R.boundary = std::max(R.boundary, std::max(scaled(a, ra, floor_factor * Phi[m]), scaled(b, rb, floor_factor * Phi[m])));
  }
  // continuity of derivatives 1..2s-2 at interior knots
  for (int j = 1; j < N; ++j)
    for (int m = 1; m <= 2 * s - 2; ++m) {
      ld l[DIM], r[DIM];
      ev(j - 1, (ld)c.T[j - 1], m, l); ev(j, 0, m, r);
      ld v = scaled(l, r, floor_factor * Phi[m]);
      if (v > R.cont[m]) { R.cont[m] = v; R.cont_knot[m] = j; }
    }
  return R;
}

}  // namespace vf
