// vmain.cpp - harness front ends: rapidcheck driver, replay, self-test.  Compiled once and
// linked into every property binary (property translation units do not include rapidcheck).
#include "vcore.hpp"
#include <rapidcheck.h>
#include <ctime>
#include <sys/syscall.h>

extern "C" void __sanitizer_set_death_callback(void (*)(void)) __attribute__((weak));

namespace vf {

std::vector<PropDef>& registry() { static std::vector<PropDef> r; return r; }

// ------------------------------------------------------------ crash dump of the case in flight
static const PropDef* g_cur_prop = nullptr;
static const std::vector<uint32_t>* g_cur_tape = nullptr;
static std::string g_crash_path;
static std::string g_target;
static std::string g_corpus_dir;  // when set, sampled tapes are also written as libFuzzer seed inputs (little-endian words)

static std::string json_escape(const std::string& s) {
  std::string o;
  for (char c : s) {
    switch (c) {
      case '"': o += "\\\""; break;
      case '\\': o += "\\\\"; break;
      case '\n': o += "\\n"; break;
      case '\t': o += "\\t"; break;
      case '\r': o += "\\r"; break;
      default:
        if ((unsigned char)c < 0x20) { char b[8]; std::snprintf(b, sizeof b, "\\u%04x", c); o += b; }
        else o += c;
    }
  }
  return o;
}

static void write_case_file(const std::string& path, const PropDef& p, const std::vector<uint32_t>& tape,
                            size_t used, const std::string& cls, const std::string& msg, const std::string& desc) {
  // written under a private name and renamed: several workers may shrink to the same case (same hash, same path) while the driver replays it
  const std::string tmp = path + ".tmp." + std::to_string((long)getpid());
  struct Renamer { std::string a, b; ~Renamer() { std::rename(a.c_str(), b.c_str()); } };
  Renamer rn{tmp, path};   // declared first: destroyed after the stream is closed
  std::ofstream f(tmp);
  f << "# verif case v1\n";
  f << "prop " << p.name << "\n";
  f << "target " << g_target << "\n";
  f << "variant " << p.variant << "\n";
  if (!cls.empty()) f << "# class " << cls << "\n";
  if (!msg.empty()) { std::string m = msg; std::replace(m.begin(), m.end(), '\n', ' '); f << "# message " << m << "\n"; }
  if (!desc.empty()) { std::string m = desc; std::replace(m.begin(), m.end(), '\n', ' '); f << "# case {" << m << "}\n"; }
  f << "tape";
  size_t n = std::min(used, tape.size());
  // trailing zeros are implied by an exhausted tape
  while (n > 0 && tape[n - 1] == 0) --n;
  for (size_t i = 0; i < n; ++i) f << ' ' << tape[i];
  f << "\n";
}

// Called from sanitizer death callbacks and signal handlers: no allocation, no stdio, raw system calls only
// (inside a ThreadSanitizer report the runtime holds internal locks; intercepted libc calls can deadlock there).
static char g_crash_path_c[1024];
static char g_crash_head_c[1024];
static size_t raw_append(char* buf, size_t pos, size_t cap, const char* s) { while (*s && pos + 1 < cap) buf[pos++] = *s++; return pos; }
static size_t raw_append_u(char* buf, size_t pos, size_t cap, unsigned long v) {
  char tmp[24]; int n = 0;
  do { tmp[n++] = (char)('0' + v % 10); v /= 10; } while (v && n < 23);
  while (n > 0 && pos + 1 < cap) buf[pos++] = tmp[--n];
  return pos;
}
static void raw_write(int fd, const char* b, size_t n) { while (n > 0) { long r = syscall(SYS_write, fd, b, n); if (r <= 0) break; b += r; n -= (size_t)r; } }
static void crash_dump() {
  static volatile int done = 0;
  if (__sync_lock_test_and_set(&done, 1)) return;
  if (!g_cur_tape || g_crash_path_c[0] == 0) return;
  int fd = (int)syscall(SYS_open, g_crash_path_c, O_WRONLY | O_CREAT | O_TRUNC, 0644);
  if (fd < 0) return;
  size_t hl = 0; while (g_crash_head_c[hl]) ++hl;
  raw_write(fd, g_crash_head_c, hl);
  static char buf[1 << 16];
  size_t pos = 0;
  pos = raw_append(buf, pos, sizeof buf, "tape");
  const std::vector<uint32_t>& tp = *g_cur_tape;
  size_t n = tp.size();
  while (n > 0 && tp[n - 1] == 0) --n;
  for (size_t i = 0; i < n; ++i) {
    if (pos + 16 > sizeof buf) { raw_write(fd, buf, pos); pos = 0; }
    buf[pos++] = ' ';
    pos = raw_append_u(buf, pos, sizeof buf, tp[i]);
  }
  buf[pos++] = '\n';
  raw_write(fd, buf, pos);
  syscall(SYS_close, fd);
  static char msg[1200];
  size_t m = 0;
  m = raw_append(msg, m, sizeof msg, "\nVERIF-CRASH case written to ");
  m = raw_append(msg, m, sizeof msg, g_crash_path_c);
  m = raw_append(msg, m, sizeof msg, "\n");
  raw_write(2, msg, m);
}
static void set_crash_target(const PropDef& p, const std::string& path) {
  g_crash_path = path;
  std::snprintf(g_crash_path_c, sizeof g_crash_path_c, "%s", path.c_str());
  std::snprintf(g_crash_head_c, sizeof g_crash_head_c, "# verif case v1\nprop %s\ntarget %s\nvariant %s\n# class crash\n# message process died (sanitizer report / assertion / signal) while running this case\n",
                p.name.c_str(), g_target.c_str(), p.variant.c_str());
}
static void on_signal(int sig) {
  crash_dump();
  signal(sig, SIG_DFL);
  raise(sig);
}
static void install_crash_hooks() {
  if (__sanitizer_set_death_callback) __sanitizer_set_death_callback(crash_dump);
  signal(SIGABRT, on_signal);
  signal(SIGFPE, on_signal);
  signal(SIGILL, on_signal);
}

// ------------------------------------------------------------ helpers
static bool read_case_file(const std::string& path, std::string& prop, std::vector<uint32_t>& tape) {
  std::ifstream f(path);
  if (!f) return false;
  std::string line;
  bool got = false;
  while (std::getline(f, line)) {
    if (line.empty() || line[0] == '#') continue;
    std::istringstream is(line);
    std::string key; is >> key;
    if (key == "prop") is >> prop;
    else if (key == "tape") { uint64_t v; while (is >> v) tape.push_back((uint32_t)v); got = true; }
  }
  return got;
}

static const PropDef* find_prop(const std::string& name) {
  for (auto& p : registry()) if (p.name == name) return &p;
  return nullptr;
}

static std::vector<KnownFinding> parse_known(const std::vector<std::string>& specs) {
  // spec:  ID:key=val,key=val
  std::vector<KnownFinding> out;
  for (auto& s : specs) {
    KnownFinding k;
    size_t c = s.find(':');
    k.id = s.substr(0, c);
    if (c != std::string::npos) {
      std::string rest = s.substr(c + 1);
      std::istringstream is(rest);
      std::string kv;
      while (std::getline(is, kv, ',')) {
        size_t e = kv.find('=');
        if (e == std::string::npos) continue;
        k.num[kv.substr(0, e)] = std::atof(kv.substr(e + 1).c_str());
      }
    }
    out.push_back(k);
  }
  return out;
}

struct Stats {
  uint64_t evaluations = 0, nontrivial = 0;
  std::map<std::string, uint64_t> labels;
  std::map<std::string, double> maxima;
  std::map<std::string, uint64_t> known_hits;
  std::map<std::string, std::string> known_detail;
  std::set<uint64_t> nt_hashes;
};

static void run_one(const PropDef& p, const std::vector<uint32_t>& tape, Ctx& ctx, size_t* used = nullptr) {
  Tape t(tape);
  ctx.reset();
  g_cur_prop = &p; g_cur_tape = &tape;
  p.fn(t, ctx);
  g_cur_tape = nullptr;
  if (used) *used = t.used();
}

static void write_stats(const std::string& path, const PropDef& p, const Stats& st, bool failed,
                        const std::string& cls, const std::string& msg, const std::string& replay,
                        const std::vector<std::string>& samples, uint64_t enum_covered, const std::string& hash_file) {
  std::ofstream f(path);
  f << "{\n";
  f << " \"prop\": \"" << p.name << "\", \"target\": \"" << g_target << "\", \"variant\": \"" << json_escape(p.variant) << "\",\n";
  f << " \"evaluations\": " << st.evaluations << ", \"nontrivial\": " << st.nontrivial
    << ", \"distinct_nontrivial_worker\": " << st.nt_hashes.size() << ",\n";
  f << " \"enum_count\": " << p.enum_count << ", \"enum_covered\": " << enum_covered << ",\n";
  f << " \"labels\": {";
  bool first = true;
  for (auto& kv : st.labels) { f << (first ? "" : ", ") << "\"" << json_escape(kv.first) << "\": " << kv.second; first = false; }
  f << "},\n \"maxima\": {";
  first = true;
  for (auto& kv : st.maxima) {
    f << (first ? "" : ", ") << "\"" << json_escape(kv.first) << "\": ";
    if (std::isfinite(kv.second)) f << g17(kv.second); else f << "1e999";
    first = false;
  }
  f << "},\n \"known_hits\": {";
  first = true;
  for (auto& kv : st.known_hits) { f << (first ? "" : ", ") << "\"" << json_escape(kv.first) << "\": " << kv.second; first = false; }
  f << "},\n \"known_detail\": {";
  first = true;
  for (auto& kv : st.known_detail) { f << (first ? "" : ", ") << "\"" << json_escape(kv.first) << "\": \"" << json_escape(kv.second) << "\""; first = false; }
  f << "},\n \"samples\": [";
  first = true;
  for (auto& s : samples) { f << (first ? "" : ",\n   ") << s; first = false; }
  f << "],\n";
  f << " \"failed\": " << (failed ? "true" : "false") << ", \"fail_class\": \"" << json_escape(cls) << "\", \"fail_msg\": \""
    << json_escape(msg) << "\", \"replay\": \"" << json_escape(replay) << "\", \"hash_file\": \"" << json_escape(hash_file) << "\"\n";
  f << "}\n";
}

static std::string sample_json(const PropDef& p, const std::vector<uint32_t>& tape, Ctx& ctx, const char* why) {
  size_t used = 0;
  ctx.want_desc = true;
  run_one(p, tape, ctx, &used);
  ctx.want_desc = false;
  std::ostringstream o;
  o << "{\"why\": \"" << why << "\", \"tape_words_used\": " << used << ", \"nontrivial\": " << (ctx.nontrivial ? "true" : "false");
  std::string d = ctx.desc.str();
  if (!d.empty()) o << ", " << d;
  o << ", \"tape_head\": [";
  size_t n = std::min<size_t>(used, std::min<size_t>(tape.size(), 24));
  for (size_t i = 0; i < n; ++i) o << (i ? "," : "") << tape[i];
  o << "]}";
  return o.str();
}

// ------------------------------------------------------------ rapidcheck front end
static int run_rc(const PropDef& p, const std::string& out, const std::string& replay_dir,
                  const std::vector<KnownFinding>& known, uint64_t worker, uint64_t workers, bool verbose) {
  Stats st;
  Ctx ctx;
  ctx.known = &known;
  ctx.verbose = verbose;
  bool seen_failure = false;
  std::vector<uint32_t> last_fail_tape;
  std::string first_fail_class;
  uint64_t enum_next = worker;      // this worker enumerates indices worker, worker+W, ...
  uint64_t enum_covered = 0;
  std::vector<std::vector<uint32_t>> sample_tapes;
  std::vector<std::string> sample_why;
  std::vector<uint32_t> largest_tape; size_t largest_used = 0;
  uint64_t next_sample_at = 0;

  const size_t len = p.tape_len;
  auto wordGen = rc::gen::arbitrary<uint32_t>();
  auto tapeGen = rc::gen::container<std::vector<uint32_t>>(len, wordGen);
  // enumerated leading word: a generator without shrinks whose value is the next index of this worker
  rc::Gen<uint32_t> enumGen([&](const rc::Random&, int) {
    uint32_t v = (uint32_t)(enum_next % (p.enum_count ? p.enum_count : 1));
    enum_next += workers;
    return rc::shrinkable::just(v);
  });

  set_crash_target(p, replay_dir + "/" + p.name + "-" + g_target + "-crash-" + std::to_string((long)getpid()) + ".case");

  // shrinking budget: once a failure has been seen, at most this many further executions / seconds are spent on shrinking;
  // afterwards every candidate is reported as passing, which ends rapidcheck's shrink loop at the smallest failure found so far
  uint64_t shrink_runs = 0;
  const uint64_t shrink_max_runs = 600;
  time_t shrink_t0 = 0;
  const int shrink_max_seconds = 20;

  bool ok = rc::check(p.name + " [" + p.variant + "]", [&]() {
    std::vector<uint32_t> tape = *tapeGen;
    if (p.enum_count) tape[0] = *enumGen;
    size_t used = 0;
    if (seen_failure) {
      if (shrink_t0 == 0) shrink_t0 = time(nullptr);
      if (++shrink_runs > shrink_max_runs || time(nullptr) - shrink_t0 > shrink_max_seconds) return;
    }
    run_one(p, tape, ctx, &used);
    if (!seen_failure) {
      // statistics are collected only during the search phase, never while shrinking
      st.evaluations++;
      if (p.enum_count) enum_covered++;
      for (auto& l : ctx.labels) st.labels[l]++;
      for (auto& kv : ctx.maxima) { auto it = st.maxima.find(kv.first); if (it == st.maxima.end() || kv.second > it->second) st.maxima[kv.first] = kv.second; }
      for (auto& k : ctx.known_hits) { st.known_hits[k]++; if (!st.known_detail.count(k)) st.known_detail[k] = ctx.known_detail; }
      if (ctx.nontrivial) { st.nontrivial++; st.nt_hashes.insert(fnv1a(tape.data(), std::min(used, tape.size()))); }
      if (st.evaluations - 1 == next_sample_at && sample_tapes.size() < 6) {
        sample_tapes.push_back(tape); sample_why.push_back("case #" + std::to_string(st.evaluations - 1));
        next_sample_at = next_sample_at == 0 ? 7 : next_sample_at * 9 + 1;
      }
      if (used > largest_used) { largest_used = used; largest_tape = tape; }
    }
    if (ctx.failed) {
      if (!seen_failure) { seen_failure = true; first_fail_class = ctx.fail_class; }
      last_fail_tape = tape;
    }
    RC_ASSERT(!ctx.failed);
  });

  std::string replay, cls, msg;
  if (!ok) {
    if (last_fail_tape.empty()) {
      // rapidcheck reported failure without our check failing (exception / gave up)
      cls = "harness"; msg = "rapidcheck reported failure without a failing case (exception or give-up)";
    } else {
      size_t used = 0;
      ctx.want_desc = true;
      run_one(p, last_fail_tape, ctx, &used);
      ctx.want_desc = false;
      cls = ctx.fail_class; msg = ctx.fail_msg;
      uint64_t h = fnv1a(last_fail_tape.data(), std::min(used, last_fail_tape.size()));
      char hb[32]; std::snprintf(hb, sizeof hb, "%016llx", (unsigned long long)h);
      replay = replay_dir + "/" + p.name + "-" + g_target + "-" + hb + ".case";
      write_case_file(replay, p, last_fail_tape, used, cls, msg, ctx.desc.str());
    }
  }
  std::vector<std::string> samples;
  if (ok) {
    for (size_t i = 0; i < sample_tapes.size(); ++i) samples.push_back(sample_json(p, sample_tapes[i], ctx, sample_why[i].c_str()));
    if (!largest_tape.empty()) samples.push_back(sample_json(p, largest_tape, ctx, "largest (most tape words used)"));
    if (!g_corpus_dir.empty()) {
      auto dump = [&](const std::vector<uint32_t>& tp, size_t k) {
        size_t used = 0; run_one(p, tp, ctx, &used);
        size_t n = std::min(used, tp.size());
        char nm[64]; std::snprintf(nm, sizeof nm, "/seed-%llu-%zu", (unsigned long long)worker, k);
        std::ofstream f(g_corpus_dir + nm, std::ios::binary);
        for (size_t i = 0; i < n; ++i) { unsigned char b[4] = {(unsigned char)(tp[i] & 255), (unsigned char)((tp[i] >> 8) & 255), (unsigned char)((tp[i] >> 16) & 255), (unsigned char)((tp[i] >> 24) & 255)}; f.write((const char*)b, 4); }
      };
      for (size_t i = 0; i < sample_tapes.size(); ++i) dump(sample_tapes[i], i);
      if (!largest_tape.empty()) dump(largest_tape, 99);
    }
  }
  std::string hash_file;
  if (!out.empty()) {
    hash_file = out + ".hashes";
    std::ofstream hf(hash_file, std::ios::binary);
    for (uint64_t h : st.nt_hashes) hf.write((const char*)&h, 8);
    hf.close();
    write_stats(out, p, st, !ok, cls, msg, replay, samples, enum_covered, hash_file);
  }
  if (!ok) {
    std::fprintf(stderr, "FALSIFIED %s class=%s\n  %s\n  replay=%s\n", p.name.c_str(), cls.c_str(), msg.c_str(), replay.c_str());
    return 1;
  }
  return 0;
}

static int run_replay(const std::string& file, const std::string& prop_override, const std::vector<KnownFinding>& known) {
  std::string prop;
  std::vector<uint32_t> tape;
  if (!read_case_file(file, prop, tape)) { std::fprintf(stderr, "cannot read case file %s\n", file.c_str()); return 2; }
  if (!prop_override.empty()) prop = prop_override;
  const PropDef* p = find_prop(prop);
  if (!p) { std::fprintf(stderr, "property %s not in this binary\n", prop.c_str()); return 2; }
  Ctx ctx;
  ctx.known = &known;
  ctx.want_desc = true;
  ctx.verbose = true;
  size_t used = 0;
  {
    std::string crash = file + ".crash";
    if (const char* cd = std::getenv("VERIF_CRASH_DIR")) {
      size_t sl = file.find_last_of('/');
      crash = std::string(cd) + "/" + (sl == std::string::npos ? file : file.substr(sl + 1)) + ".crash";
    }
    set_crash_target(*p, crash);
  }
  run_one(*p, tape, ctx, &used);
  std::printf("case: {%s}\n", ctx.desc.str().c_str());
  for (auto& k : ctx.known_hits) std::printf("known-finding region hit: %s (%s)\n", k.c_str(), ctx.known_detail.c_str());
  if (ctx.failed) {
    std::printf("REPLAY FAIL %s class=%s\n  %s\n", prop.c_str(), ctx.fail_class.c_str(), ctx.fail_msg.c_str());
    return 1;
  }
  std::printf("REPLAY PASS %s (tape words used %zu, nontrivial=%d)\n", prop.c_str(), used, (int)ctx.nontrivial);
  return 0;
}

int harness_main(int argc, char** argv) {
  std::string prop, out, replay_file, replay_dir = ".";
  std::vector<std::string> kf;
  bool rc_mode = false, selftest = false, list = false, verbose = false;
  uint64_t worker = 0, workers = 1;
  g_target = argv[0];
  { size_t s = g_target.rfind('/'); if (s != std::string::npos) g_target = g_target.substr(s + 1); }
  for (int i = 1; i < argc; ++i) {
    std::string a = argv[i];
    auto next = [&]() -> std::string { if (i + 1 >= argc) { std::fprintf(stderr, "missing value for %s\n", a.c_str()); std::exit(2); } return argv[++i]; };
    if (a == "--prop") prop = next();
    else if (a == "--rc") rc_mode = true;
    else if (a == "--out") out = next();
    else if (a == "--replay") replay_file = next();
    else if (a == "--replay-dir") replay_dir = next();
    else if (a == "--kf") kf.push_back(next());
    else if (a == "--corpus-dir") g_corpus_dir = next();
    else if (a == "--worker") worker = std::strtoull(next().c_str(), nullptr, 10);
    else if (a == "--workers") workers = std::strtoull(next().c_str(), nullptr, 10);
    else if (a == "--selftest") selftest = true;
    else if (a == "--list") list = true;
    else if (a == "-v") verbose = true;
    else { std::fprintf(stderr, "unknown argument %s\n", a.c_str()); return 2; }
  }
  install_crash_hooks();
  auto known = parse_known(kf);
  if (list) { for (auto& p : registry()) std::printf("%s\t%s\t%zu\t%llu\n", p.name.c_str(), p.variant.c_str(), p.tape_len, (unsigned long long)p.enum_count); return 0; }
  if (selftest) {
    int bad = 0;
    for (auto& p : registry()) {
      if (!prop.empty() && p.name != prop) continue;
      if (!p.selftest) continue;
      std::string m;
      bool ok = p.selftest(m);
      std::printf("SELFTEST %s [%s]: %s %s\n", p.name.c_str(), p.variant.c_str(), ok ? "ok" : "FAILED", m.c_str());
      if (!ok) ++bad;
    }
    return bad ? 2 : 0;
  }
  if (!replay_file.empty()) return run_replay(replay_file, prop, known);
  if (rc_mode) {
    const PropDef* p = find_prop(prop);
    if (!p) { std::fprintf(stderr, "property %s not in this binary\n", prop.c_str()); return 2; }
    if (workers == 0) workers = 1;
    return run_rc(*p, out, replay_dir, known, worker, workers, verbose);
  }
  std::fprintf(stderr, "usage: %s --prop ID (--rc --out stats.json [--replay-dir D] | --replay FILE) | --selftest | --list\n", argv[0]);
  return 2;
}

}  // namespace vf

int main(int argc, char** argv) { return vf::harness_main(argc, argv); }
