// fuzz_ppoly.cpp - libFuzzer entry for the discrete-structure properties: -DFUZZ_PROP=3 | 11 | 16 | 20.
// The input bytes are read as little-endian uint32 words and handed, as a tape, to exactly the same check function
// that the rapidcheck front end drives.  A failed check writes the case file (same format as the rapidcheck front end)
// and traps; counters are dumped at exit so that the driver can merge them into the evidence.
#ifndef FUZZ_PROP
#define FUZZ_PROP 3
#endif
#if FUZZ_PROP == 3
#include "ppoly_c03.cpp"
#define FUZZ_NAME "C03"
#elif FUZZ_PROP == 11
#include "ppoly_c11.cpp"
#define FUZZ_NAME "C11"
#elif FUZZ_PROP == 16
#include "opt_c16.cpp"
#define FUZZ_NAME "C16"
#else
#include "ppoly_c20.cpp"
#define FUZZ_NAME "C20"
#endif

namespace vf {
std::vector<PropDef>& registry() { static std::vector<PropDef> r; return r; }
}

namespace {
struct FuzzState {
  const vf::PropDef* prop = nullptr;
  uint64_t evaluations = 0, nontrivial = 0;
  std::set<uint64_t> hashes;
  std::map<std::string, uint64_t> labels;
  std::string out_json, replay_dir = ".", target = "fuzz";
  bool failed = false;
  std::string fail_class, fail_msg, replay;
};
FuzzState& st() { static FuzzState s; return s; }

void dump_stats() {
  FuzzState& s = st();
  if (s.out_json.empty()) return;
  std::ofstream f(s.out_json);
  std::ofstream hf(s.out_json + ".hashes", std::ios::binary);
  for (uint64_t h : s.hashes) hf.write((const char*)&h, 8);
  f << "{\"prop\": \"" FUZZ_NAME "\", \"target\": \"" << s.target << "\", \"variant\": \"libFuzzer\", \"evaluations\": " << s.evaluations << ", \"nontrivial\": " << s.nontrivial
    << ", \"distinct_nontrivial_worker\": " << s.hashes.size() << ", \"enum_count\": 0, \"enum_covered\": 0, \"labels\": {";
  bool first = true;
  for (auto& kv : s.labels) { f << (first ? "" : ", ") << "\"fuzz/" << kv.first << "\": " << kv.second; first = false; }
  f << "}, \"maxima\": {}, \"known_hits\": {}, \"known_detail\": {}, \"samples\": [], \"failed\": " << (s.failed ? "true" : "false") << ", \"fail_class\": \"" << s.fail_class << "\", \"fail_msg\": \"\", \"replay\": \""
    << s.replay << "\", \"hash_file\": \"" << s.out_json << ".hashes\"}\n";
}
}  // namespace

extern "C" int LLVMFuzzerInitialize(int*, char***) {
  FuzzState& s = st();
  for (auto& p : vf::registry()) if (p.name == FUZZ_NAME) s.prop = &p;
  if (const char* e = std::getenv("VERIF_FUZZ_STATS")) s.out_json = e;
  if (const char* e = std::getenv("VERIF_FUZZ_REPLAYS")) s.replay_dir = e;
  if (const char* e = std::getenv("VERIF_FUZZ_TARGET")) s.target = e;  // name of the rapidcheck binary that can replay the case
  std::atexit(dump_stats);
  return 0;
}

extern "C" int LLVMFuzzerTestOneInput(const uint8_t* data, size_t size) {
  FuzzState& s = st();
  if (!s.prop) return 0;
  std::vector<uint32_t> tape(size / 4);
  for (size_t i = 0; i < tape.size(); ++i) tape[i] = (uint32_t)data[4 * i] | ((uint32_t)data[4 * i + 1] << 8) | ((uint32_t)data[4 * i + 2] << 16) | ((uint32_t)data[4 * i + 3] << 24);
  vf::Tape t(tape);
  vf::Ctx ctx;
  s.prop->fn(t, ctx);
  s.evaluations++;
  for (auto& l : ctx.labels) s.labels[l]++;
  if (ctx.nontrivial) { s.nontrivial++; if (s.hashes.size() < 4000000) s.hashes.insert(vf::fnv1a(tape.data(), std::min(t.used(), tape.size()))); }
  if (ctx.failed) {
    uint64_t h = vf::fnv1a(tape.data(), tape.size());
    char hb[32]; std::snprintf(hb, sizeof hb, "%016llx", (unsigned long long)h);
    std::string path = s.replay_dir + "/" FUZZ_NAME "-" + s.target + "-fuzz-" + hb + ".case";
    std::ofstream f(path);
    f << "# verif case v1\nprop " FUZZ_NAME "\ntarget " << s.target << "\nvariant found by libFuzzer\n# class " << ctx.fail_class << "\n# message ";
    std::string m = ctx.fail_msg; std::replace(m.begin(), m.end(), '\n', ' ');
    f << m << "\ntape";
    size_t n = tape.size(); while (n > 0 && tape[n - 1] == 0) --n;
    for (size_t i = 0; i < n; ++i) f << ' ' << tape[i];
    f << "\n";
    f.close();
    s.failed = true; s.fail_class = ctx.fail_class; s.replay = path;
    std::fprintf(stderr, "\nVERIF-FUZZ case written to %s\n  %s: %s\n", path.c_str(), ctx.fail_class.c_str(), m.c_str());
    dump_stats();
    __builtin_trap();
  }
  return 0;
}
