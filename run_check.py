#!/usr/bin/env python3
"""run_check.py - driver of the SplineTrajectory verification harness.

  ./run_check.py Cxx [--tier quick|thorough]   build what is stale, run the generated-input search, merge
                                               evidence, apply the known-findings filter, confirm failures by
                                               replay, print VIOLATION / KNOWN-FINDING lines, exit 0/1
  ./run_check.py --build [all|Cxx ...]         build only
  ./run_check.py --selftest                    oracle self-tests of every built binary
  ./run_check.py --replay FILE                 re-run one saved case (exit 1 if it still fails)

Environment: VERIF_SEED (int, default 1), VERIF_TIER, VERIF_REPO (default /repo), VERIF_JOBS (default 16).
Exit codes: 0 property held on everything explored; 1 violation (VIOLATION line printed); 2 harness error.
"""
import sys, os, json, time, hashlib, subprocess, shlex, glob, array, re, shutil
from concurrent.futures import ThreadPoolExecutor

HERE = os.path.dirname(os.path.abspath(__file__))
sys.path.insert(0, HERE)
import props_table as PT

REPO = os.environ.get("VERIF_REPO", "/repo")
JOBS = int(os.environ.get("VERIF_JOBS", "16"))
# the three output directories can be redirected (used only by scripts/seeds_all.sh, which runs the checks against a scratch copy of the repository)
BUILD = os.environ.get("VERIF_BUILD", os.path.join(HERE, "build"))
REPLAYS = os.environ.get("VERIF_REPLAYS", os.path.join(HERE, "replays"))
EVID = os.environ.get("VERIF_EVID", os.path.join(HERE, "evidence"))
CXX = "clang++"
BASE = ["-std=gnu++17", "-g", "-O1", "-fno-omit-frame-pointer", "-Wno-unused-parameter", "-I" + os.path.join(HERE, "harness/src"),
        "-I" + os.path.join(REPO, "include"), "-I/usr/include/eigen3", "-I" + os.path.join(HERE, "harness/include")]
SAN = {
    "asan": ["-fsanitize=address,undefined", "-fno-sanitize-recover=undefined"],
    "tsan": ["-fsanitize=thread"],
    "fuzz": ["-fsanitize=fuzzer,address,undefined", "-fno-sanitize-recover=undefined"],
    "plain": [],
}


def sha_files(paths):
    h = hashlib.sha256()
    for p in sorted(paths):
        h.update(p.encode())
        try:
            with open(p, "rb") as f:
                h.update(f.read())
        except OSError:
            h.update(b"<missing>")
    return h.hexdigest()


def repo_headers():
    out = []
    for root, _, files in os.walk(os.path.join(REPO, "include")):
        for f in files:
            out.append(os.path.join(root, f))
    return out


def harness_headers():
    return glob.glob(os.path.join(HERE, "harness/include/*.hpp"))


_hash_cache = {}


def source_deps(src):
    """the source file plus every harness header it includes (transitively); repository headers are always all included"""
    seen, todo = set(), [src]
    inc = os.path.join(HERE, "harness/include")
    while todo:
        f = todo.pop()
        if f in seen:
            continue
        seen.add(f)
        try:
            txt = open(f, errors="replace").read()
        except OSError:
            continue
        for m in re.finditer(r'#\s*include\s*"([^"]+)"', txt):
            for base in (inc, os.path.join(HERE, "harness/src")):
                cand = os.path.join(base, m.group(1))
                if os.path.exists(cand):
                    todo.append(cand)
    return sorted(seen)


def env_hash(src=None):
    if "repo" not in _hash_cache:
        _hash_cache["repo"] = sha_files(repo_headers())
    if src is None:
        return _hash_cache["repo"]
    if src not in _hash_cache:
        _hash_cache[src] = sha_files(source_deps(src))
    return _hash_cache["repo"] + _hash_cache[src]


def target_cmds(name):
    """return (list of compile/link commands, output path, hash)"""
    t = PT.TARGETS[name]
    kind = t.get("san", "asan")
    src = os.path.join(HERE, "harness/src", t["src"])
    out = os.path.join(BUILD, name)
    flags = BASE + SAN[kind] + ["-D%s" % d for d in t.get("defs", [])] + t.get("cflags", [])
    libs = t.get("libs", [])
    cmds = []
    if kind == "fuzz":
        cmds.append([CXX] + flags + [src, "-o", out] + libs)
        deps = [src]
    else:
        vmain_o = os.path.join(BUILD, "vmain_%s.o" % kind)
        cmds.append([CXX] + flags + [src, vmain_o, "-o", out, "-lrapidcheck"] + libs)
        deps = [src, os.path.join(HERE, "harness/src/vmain.cpp")]
    h = hashlib.sha256((env_hash(src) + sha_files(deps) + " ".join(sum(cmds, []))).encode()).hexdigest()
    return cmds, out, h


def build_vmain(kind):
    src = os.path.join(HERE, "harness/src/vmain.cpp")
    out = os.path.join(BUILD, "vmain_%s.o" % kind)
    cmd = [CXX] + BASE + SAN[kind] + ["-c", src, "-o", out]
    h = hashlib.sha256((sha_files(source_deps(src)) + " ".join(cmd)).encode()).hexdigest()
    hp = out + ".hash"
    if os.path.exists(out) and os.path.exists(hp) and open(hp).read() == h:
        return True
    r = subprocess.run(cmd, capture_output=True, text=True)
    if r.returncode != 0:
        sys.stderr.write(r.stderr[-4000:])
        return False
    open(hp, "w").write(h)
    return True


def build_targets(names, quiet=False):
    os.makedirs(BUILD, exist_ok=True)
    names = list(dict.fromkeys(names))
    kinds = set(PT.TARGETS[n].get("san", "asan") for n in names) - {"fuzz"}
    for k in kinds:
        if not build_vmain(k):
            print("HARNESS-ERROR: cannot build vmain (%s)" % k)
            return False
    stale = []
    for n in names:
        cmds, out, h = target_cmds(n)
        hp = out + ".hash"
        if os.path.exists(out) and os.path.exists(hp) and open(hp).read() == h:
            continue
        stale.append((n, cmds, out, h))
    if not stale:
        return True
    t0 = time.time()
    if not quiet:
        print("building %d target(s): %s" % (len(stale), " ".join(s[0] for s in stale)), flush=True)

    def one(item):
        n, cmds, out, h = item
        if os.path.exists(out + ".hash"):
            os.remove(out + ".hash")
        for c in cmds:
            r = subprocess.run(c, capture_output=True, text=True)
            if r.returncode != 0:
                return n, False, r.stderr[-6000:]
        open(out + ".hash", "w").write(h)
        return n, True, ""

    ok = True
    with ThreadPoolExecutor(max_workers=JOBS) as ex:
        for n, good, err in ex.map(one, stale):
            if not good:
                ok = False
                print("HARNESS-ERROR: build of %s failed:\n%s" % (n, err))
    if not quiet:
        print("build finished in %.1fs" % (time.time() - t0), flush=True)
    return ok


def load_known(prop):
    p = os.path.join(HERE, "known_findings.json")
    if not os.path.exists(p):
        return [], []
    data = json.load(open(p))
    opens, fixed = [], []
    for f in data.get("findings", []):
        if f.get("property") != prop:
            continue
        (opens if f.get("status") == "open" else fixed).append(f)
    return opens, fixed


def run_env():
    e = dict(os.environ)
    e["ASAN_OPTIONS"] = "detect_leaks=1:abort_on_error=0:exitcode=66:allocator_may_return_null=1:detect_stack_use_after_return=0:quarantine_size_mb=64"
    e["UBSAN_OPTIONS"] = "print_stacktrace=1:halt_on_error=1:exitcode=66"
    e["TSAN_OPTIONS"] = "halt_on_error=1:exitcode=66:second_deadlock_stack=1"
    e.pop("RC_PARAMS", None)
    e["VERIF_CRASH_DIR"] = REPLAYS   # crash dumps of replayed cases never land next to committed files
    return e


def replay_once(target, path, kf_args, timeout=600):
    exe = os.path.join(BUILD, target)
    try:
        r = subprocess.run([exe, "--replay", path] + kf_args, capture_output=True, text=True, env=run_env(), timeout=timeout)
    except subprocess.TimeoutExpired:
        return None, "timeout"
    return r.returncode, (r.stdout + r.stderr)


def case_target(path):
    try:
        for l in open(path):
            if l.startswith("target "):
                return l.split()[1]
    except OSError:
        pass
    return None



def read_case(path):
    head, tape = [], []
    for l in open(path):
        if l.startswith("tape"):
            tape = [int(x) for x in l.split()[1:]]
        else:
            head.append(l.rstrip("\n"))
    return head, tape


def write_case(path, head, tape):
    t = list(tape)
    while t and t[-1] == 0:
        t.pop()
    with open(path, "w") as f:
        f.write("\n".join(head) + "\ntape " + " ".join(map(str, t)) + "\n")


def shrink_crash(target, path, kf_args, budget_runs=300, budget_s=120):
    """Sanitizer reports and assertions abort the process, which bypasses rapidcheck's shrinking.  Minimise such a case here by replaying
    candidate tapes (shorter prefix, zeroed words, halved words) and keeping those that still die; bounded by a run and time budget."""
    t0 = time.time()
    head, tape = read_case(path)
    runs = [0]
    tmp = path + ".cand"

    def dies(t):
        if runs[0] >= budget_runs or time.time() - t0 > budget_s:
            return False
        runs[0] += 1
        write_case(tmp, head, t)
        rc, _ = replay_once(target, tmp, kf_args, timeout=120)
        return rc is not None and rc not in (0, 2)

    best = list(tape)
    # 1. shortest prefix
    lo, hi = 0, len(best)
    while lo < hi:
        mid = (lo + hi) // 2
        if dies(best[:mid]):
            hi = mid
        else:
            lo = mid + 1
    if hi < len(best) and dies(best[:hi]):
        best = best[:hi]
    # 2. zero blocks of words (block size halving, delta-debugging style), then halve single survivors
    block = max(1, len(best) // 2)
    while block >= 1 and runs[0] < budget_runs:
        i = 0
        while i < len(best):
            if any(best[i:i + block]):
                cand = list(best); cand[i:i + block] = [0] * len(cand[i:i + block])
                if dies(cand):
                    best = cand
            i += block
        block //= 2
    for i in range(len(best) - 1, -1, -1):
        if best[i] > 1:
            cand = list(best); cand[i] = best[i] // 2
            if dies(cand):
                best = cand
    out = path[:-5] + ".min.case" if path.endswith(".case") else path + ".min"
    head2 = [h for h in head if not h.startswith("# message")] + ["# message minimised by the driver from %s (%d words -> %d non-zero words, %d replays)" % (os.path.basename(path), len(tape), sum(1 for w in best if w), runs[0])]
    write_case(out, head2, best)
    try:
        os.remove(tmp)
    except OSError:
        pass
    rc, _ = replay_once(target, out, kf_args, timeout=120)
    return out if (rc is not None and rc not in (0, 2)) else path


def main():
    args = sys.argv[1:]
    if not args:
        print(__doc__)
        return 2
    if args[0] == "--build":
        which = args[1:] or ["all"]
        names = []
        for w in which:
            if w == "all":
                names += list(PT.TARGETS.keys())
            elif w in PT.PROPS:
                names += PT.prop_targets(w, "thorough")
            else:
                names.append(w)
        return 0 if build_targets(names) else 2
    if args[0] == "--selftest":
        names = [n for n in PT.TARGETS if PT.TARGETS[n].get("san", "asan") != "fuzz" and PT.TARGETS[n].get("selftest")]
        if not build_targets(names):
            return 2
        bad = 0

        def st(n):
            r = subprocess.run([os.path.join(BUILD, n), "--selftest"], capture_output=True, text=True, env=run_env())
            return n, r.returncode, r.stdout + r.stderr

        with ThreadPoolExecutor(max_workers=JOBS) as ex:
            for n, rc, out in ex.map(st, names):
                sys.stdout.write(out)
                if rc != 0:
                    bad += 1
                    print("HARNESS-ERROR: self-test of %s failed (rc=%d)" % (n, rc))
        return 2 if bad else 0
    if args[0] == "--replay":
        path = args[1]
        tgt = case_target(path)
        prop = None
        for l in open(path):
            if l.startswith("prop "):
                prop = l.split()[1]
        if tgt is None or tgt not in PT.TARGETS:
            print("HARNESS-ERROR: case file names no known target")
            return 2
        if not build_targets([tgt]):
            return 2
        main_prop = prop[:3] if prop else prop   # sub-checks (C18g, C12r, ...) belong to the listed property
        opens, _ = load_known(main_prop)
        kf_args = sum([["--kf", kf_spec(f)] for f in opens], [])
        rc, out = replay_once(tgt, path, kf_args)
        sys.stdout.write(out or "")
        if rc == 0:
            for f in opens:
                if out and "known-finding region hit: %s" % f["id"] in out:
                    print("KNOWN-FINDING: property=%s %s" % (main_prop, f["what"]))
            return 0
        if rc is None:
            print("INCONCLUSIVE: replay timed out")
            return 0
        print("VIOLATION property=%s replay=%s" % (main_prop, path))
        return 1

    prop = args[0]
    tier = os.environ.get("VERIF_TIER", "quick")
    i = 1
    while i < len(args):
        if args[i] == "--tier":
            tier = args[i + 1]
            i += 2
        else:
            print("unknown argument", args[i])
            return 2
    if tier not in ("quick", "thorough"):
        tier = "quick"
    if prop not in PT.PROPS:
        print("HARNESS-ERROR: unknown property", prop)
        return 2
    return run_property(prop, tier)


def kf_spec(f):
    params = f.get("params", {})
    return f["id"] + ":" + ",".join("%s=%r" % (k, float(v)) for k, v in params.items())


def run_property(prop, tier):
    t0 = time.time()
    seed = int(os.environ.get("VERIF_SEED", "1") or "1")
    if seed == 0:
        seed = 1000003  # rapidcheck treats 0 as "random"
    spec = PT.PROPS[prop]
    jobs = PT.prop_jobs(prop, tier)
    # bound the memory of a worker process (ASan quarantine and per-case bookkeeping grow with the number of cases): long jobs are cut
    # into consecutive processes of at most CHUNK cases, each with its own seed
    CHUNK = 100000
    expanded = []
    for j in jobs:
        if not j.get("fuzz") and j["cases"] > CHUNK:
            n = -(-j["cases"] // CHUNK)
            for _ in range(n):
                jj = dict(j); jj["cases"] = -(-j["cases"] // n)
                expanded.append(jj)
        else:
            expanded.append(j)
    jobs = expanded
    targets = list(dict.fromkeys(j["target"] for j in jobs))
    os.makedirs(REPLAYS, exist_ok=True)
    os.makedirs(EVID, exist_ok=True)
    if not build_targets(targets):
        return 2
    opens, fixed = load_known(prop)
    kf_args = sum([["--kf", kf_spec(f)] for f in opens], [])
    work = os.path.join(BUILD, "run-%s-%s-%d" % (prop, tier, os.getpid()))
    shutil.rmtree(work, ignore_errors=True)
    os.makedirs(work)
    violations = []   # (replay path, message)
    inconclusive = []
    results = []

    # ---- replay tier: committed regression cases first
    regress = sorted(glob.glob(os.path.join(HERE, "regress", prop, "*.case")))
    n_regress = 0
    for path in regress:
        tgt = case_target(path)
        if tgt not in PT.TARGETS:
            continue
        if not build_targets([tgt], quiet=True):
            return 2
        rc, out = replay_once(tgt, path, kf_args)
        n_regress += 1
        if rc == 1 or (rc is not None and rc not in (0, 1, 2)):
            violations.append((path, "committed regression case fails: " + (out or "").strip().splitlines()[-1][:300] if out else ""))
        elif rc == 2:
            print("HARNESS-ERROR: cannot replay %s" % path)
            return 2

    # ---- generated search
    import threading
    stop = threading.Event()
    procs = {}
    plock = threading.Lock()

    def run_job(idx_job):
        idx, j = idx_job
        exe = os.path.join(BUILD, j["target"])
        out = os.path.join(work, "w%03d.json" % idx)
        env = run_env()
        s = seed * 1000003 + 97 * idx + PT.prop_index(prop)
        if j.get("fuzz"):
            return run_fuzz_job(idx, j, exe, out, env, s)
        env["RC_PARAMS"] = "seed=%d max_success=%d max_size=%d max_discard_ratio=100" % (s, j["cases"], j.get("max_size", 100))
        cmd = [exe, "--prop", j.get("prop", prop), "--rc", "--out", out, "--replay-dir", REPLAYS,
               "--worker", str(j.get("worker", 0)), "--workers", str(j.get("workers", 1))] + kf_args
        t1 = time.time()
        if stop.is_set():
            return idx, j, "skipped", "", out, 0.0
        logp = os.path.join(work, "w%03d.log" % idx)
        with open(logp, "w") as lf:
            pr = subprocess.Popen(cmd, stdout=lf, stderr=subprocess.STDOUT, env=env)
        with plock:
            procs[idx] = pr
        limit = j.get("timeout", 3600 if tier == "quick" else 8 * 3600)
        rc = None
        while True:
            try:
                rc = pr.wait(timeout=0.5)
                break
            except subprocess.TimeoutExpired:
                if stop.is_set():
                    pr.kill(); pr.wait(); rc = "stopped"; break
                if time.time() - t1 > limit:
                    pr.kill(); pr.wait(); rc = None; break
        txt = open(logp, errors="replace").read()
        return idx, j, rc, txt, out, time.time() - t1

    def run_fuzz_job(idx, j, exe, out, env, s):
        """libFuzzer campaign (or corpus replay when runs == 0) on the same check function; a fresh corpus directory seeded from corpus/<id>/"""
        t1 = time.time()
        if stop.is_set():
            return idx, j, "skipped", "", out, 0.0
        cdir = os.path.join(work, "corpus%03d" % idx)
        os.makedirs(cdir, exist_ok=True)
        src = os.path.join(HERE, j["corpus"])
        for f in sorted(glob.glob(os.path.join(src, "*"))):
            shutil.copy(f, cdir)
        env["VERIF_FUZZ_STATS"] = out
        env["VERIF_FUZZ_REPLAYS"] = REPLAYS
        env["VERIF_FUZZ_TARGET"] = j["replay_target"]
        cmd = [exe, cdir, "-runs=%d" % j["runs"], "-seed=%d" % (s % 2147483647 or 1), "-max_len=%d" % j["max_len"], "-print_final_stats=1",
               "-artifact_prefix=%s/%s-%s-" % (REPLAYS, prop, j["target"]), "-rss_limit_mb=6000", "-timeout=300", "-verbosity=0"]
        logp = os.path.join(work, "w%03d.log" % idx)
        with open(logp, "w") as lf:
            pr = subprocess.Popen(cmd, stdout=lf, stderr=subprocess.STDOUT, env=env)
        rc = None
        limit = j.get("timeout", 3600 if tier == "quick" else 8 * 3600)
        while True:
            try:
                rc = pr.wait(timeout=0.5)
                break
            except subprocess.TimeoutExpired:
                if stop.is_set():
                    pr.kill(); pr.wait(); rc = "stopped"; break
                if time.time() - t1 > limit:
                    pr.kill(); pr.wait(); rc = None; break
        txt = open(logp, errors="replace").read()
        if rc not in (0, "stopped", None):
            # a failing input: either our check wrote the case file, or a sanitizer/assertion fired and libFuzzer saved the raw bytes
            m = re.search(r"VERIF-FUZZ case written to (\S+)", txt)
            case = m.group(1) if m else None
            if not case:
                m2 = re.search(r"Test unit written to (\S*crash-\S+)", txt)
                if m2 and os.path.exists(m2.group(1)):
                    raw = open(m2.group(1), "rb").read()
                    words = [int.from_bytes(raw[k:k + 4], "little") for k in range(0, len(raw) - len(raw) % 4, 4)]
                    while words and words[-1] == 0:
                        words.pop()
                    case = m2.group(1) + ".case"
                    with open(case, "w") as cf:
                        cf.write("# verif case v1\nprop %s\ntarget %s\nvariant found by libFuzzer (sanitizer report / assertion)\ntape %s\n" % (j["prop"], j["replay_target"], " ".join(map(str, words))))
            if case:
                try:
                    st = json.load(open(out)) if os.path.exists(out) else {}
                except Exception:
                    st = {}
                st.update({"prop": j["prop"], "target": j["replay_target"], "variant": "libFuzzer", "failed": True, "replay": case})
                for k, v in (("evaluations", 0), ("nontrivial", 0), ("labels", {}), ("maxima", {}), ("known_hits", {}), ("known_detail", {}), ("samples", []), ("enum_count", 0), ("enum_covered", 0)):
                    st.setdefault(k, v)
                st.setdefault("fail_class", "fuzz"); st.setdefault("fail_msg", "libFuzzer found a failing input")
                json.dump(st, open(out, "w"))
                jj = dict(j); jj["target"] = j["replay_target"]
                return idx, jj, 1, txt, out, time.time() - t1
        return idx, j, rc, txt, out, time.time() - t1

    def handle(idx, j, rc, txt, out, dt):
        st = None
        if os.path.exists(out):
            try:
                st = json.load(open(out))
            except Exception as e:
                st = None
        results.append((idx, j, rc, st, dt))
        if rc in ("skipped", "stopped"):
            return None
        if rc == 0 and st is not None:
            return None
        if rc is None:
            inconclusive.append("worker %d (%s) timed out" % (idx, j["target"]))
            return None
        if rc == 1 and st is not None and st.get("replay"):
            # confirm by replaying the shrunk case, bypassing rapidcheck, three times
            fails = 0
            for _ in range(3):
                rrc, rout = replay_once(j["target"], st["replay"], kf_args)
                if rrc == 1 or (rrc is not None and rrc not in (0, 1, 2)):
                    fails += 1
            if fails == 3:
                violations.append((st["replay"], "%s: %s" % (st.get("fail_class"), st.get("fail_msg"))))
                stop.set()
            else:
                inconclusive.append("worker %d reported a failure that did not reproduce on replay (%d/3): %s" % (idx, fails, st.get("replay")))
            return None
        # crash: sanitizer report / assertion / signal
        crash = None
        m = re.search(r"VERIF-CRASH case written to (\S+)", txt or "")
        if m:
            crash = m.group(1)
        if crash and os.path.exists(crash):
            rrc, rout = replay_once(j["target"], crash, kf_args)
            if rrc not in (0, 2, None):
                log = crash + ".log"
                rep = [l for l in (txt or "").splitlines() if "ERROR:" in l or "SUMMARY:" in l or "runtime error" in l or "Assertion" in l]
                open(log, "w").write((txt or "")[-20000:] + "\n==== replay ====\n" + (rout or "")[-20000:])
                stop.set()
                if not any(True for _ in violations):
                    crash = shrink_crash(j["target"], crash, kf_args)   # only the first one is minimised (bounded budget)
                violations.append((crash, "process died while running the case (%s); log %s" % ("; ".join(x.strip()[:200] for x in rep[:2]) or "sanitizer report / assertion / signal", log)))
                stop.set()
            else:
                inconclusive.append("worker %d crashed (rc=%s) but the dumped case does not reproduce" % (idx, rc))
            return None
        tail = "\n".join(l[:300] for l in (txt or "").strip().splitlines()[-15:])
        return "HARNESS-ERROR: worker %d (%s) exited with rc=%s without a case file:\n%s" % (idx, j["target"], rc, tail)

    from concurrent.futures import as_completed
    herr = None
    with ThreadPoolExecutor(max_workers=JOBS) as ex:
        futs = [ex.submit(run_job, ij) for ij in enumerate(jobs)]
        for f in as_completed(futs):
            e = handle(*f.result())
            if e and not herr:
                herr = e
                stop.set()
    if herr:
        print(herr)
        shutil.rmtree(work, ignore_errors=True)
        return 2

    # ---- merge statistics
    evaluations = sum(st["evaluations"] for _, _, _, st, _ in results if st)
    nontrivial = sum(st["nontrivial"] for _, _, _, st, _ in results if st)
    labels, maxima, known_hits, known_detail = {}, {}, {}, {}
    samples = []
    hashes = set()
    enum_total = {}
    enum_cov = {}
    for idx, j, rc, st, dt in results:
        if not st:
            continue
        for k, v in st["labels"].items():
            labels[k] = labels.get(k, 0) + v
        for k, v in st["maxima"].items():
            kk = k
            maxima[kk] = max(maxima.get(kk, 0.0), v)
        for k, v in st["known_hits"].items():
            known_hits[k] = known_hits.get(k, 0) + v
        for k, v in st["known_detail"].items():
            known_detail.setdefault(k, v)
        if st["samples"] and len(samples) < 8:
            for s in st["samples"][: (2 if len(jobs) > 4 else 4)]:
                s = dict(s)
                s["target"] = st["target"]
                samples.append(s)
        hf = st.get("hash_file")
        if hf and os.path.exists(hf):
            a = array.array("Q")
            with open(hf, "rb") as f:
                a.frombytes(f.read())
            hashes.update(a)
        if st.get("enum_count"):
            key = (st["target"], st["prop"])
            enum_total[key] = st["enum_count"]
            enum_cov[key] = enum_cov.get(key, 0) + st["enum_covered"]
    exhaustive = bool(enum_total) and all(enum_cov[k] >= enum_total[k] for k in enum_total)

    floor = spec.get("floor_" + tier, spec.get("floor", 0))
    wall = time.time() - t0
    status = 0
    seen = set()
    shown = 0
    for path, msg in violations:
        if path in seen:
            continue
        seen.add(path)
        if shown < 6:
            print("VIOLATION property=%s replay=%s" % (prop, path))
            print("  " + msg[:1000])
        shown += 1
    if shown > 6:
        print("  (... %d further distinct failing cases not listed)" % (shown - 6))
    if violations:
        status = 1
    for f in opens:
        hits = known_hits.get(f["id"], 0)
        print("KNOWN-FINDING: property=%s %s [%s; observed in %d generated case(s) this run, excluded from the verdict%s]"
              % (prop, f["what"], f["id"], hits, ("; e.g. " + known_detail.get(f["id"], "")) if hits else ""))
    for m in inconclusive:
        print("INCONCLUSIVE: " + m)

    coverage = {
        "evaluations": int(evaluations),
        "distinct_nontrivial": int(len(hashes)),
        "nontrivial_total": int(nontrivial),
        "rule": spec["rule"],
        "samples": samples if samples else [{"note": "no samples (search ended in a failure before sampling)"}],
        "regression_cases_replayed": n_regress,
        "class_counters": dict(sorted(labels.items())),
        "worst_measured": dict(sorted(maxima.items())),
        "excluded_known": known_hits,
        "inconclusive": inconclusive,
        "workers": len(jobs),
        "targets": targets,
        "tolerances": spec.get("tolerances", {}),
    }
    if enum_total:
        coverage["enumerated_configurations"] = {"%s/%s" % k: {"total": enum_total[k], "covered": enum_cov[k]} for k in enum_total}
        coverage["exhaustive"] = exhaustive
        coverage["exhaustive_note"] = spec.get("exhaustive_note", "")
    ev = {
        "property_id": prop, "tier": tier, "seed": seed, "level": "exploration",
        "coverage": coverage,
        "assumptions": spec.get("assumptions", []),
        "wall_s": round(wall, 2),
        "violations": len(violations),
    }
    extra = spec.get("post")
    if extra:
        extra(ev, results)
    json.dump(ev, open(os.path.join(EVID, prop + ".json"), "w"), indent=1)
    shutil.rmtree(work, ignore_errors=True)
    print("%s %s: %d cases (%d non-trivial, %d distinct), %d regression replays, %d violation(s), %.1fs"
          % (prop, tier, evaluations, nontrivial, len(hashes), n_regress, len(violations), wall))
    if status == 0 and evaluations < floor:
        print("HARNESS-ERROR: only %d cases executed, floor for this tier is %d - the check is broken, not passing" % (evaluations, floor))
        return 2
    return status


if __name__ == "__main__":
    sys.exit(main())
