#!/usr/bin/env python3
"""Regenerate /verif/MANIFEST.json from props_table.py and manifest_texts.py (run after adding a check)."""
import json, os, sys
HERE = os.path.dirname(os.path.dirname(os.path.abspath(__file__)))
sys.path.insert(0, HERE)
import props_table as PT
import manifest_texts as MT

ids = [json.loads(l)["id"] for l in open(os.path.join(HERE, "properties.jsonl"))]
checks, na = [], []
for pid in ids:
    if pid in PT.PROPS and pid in MT.TEXT:
        tx = MT.TEXT[pid]
        checks.append({
            "property_id": pid,
            "quick_cmd": "./run_check.py %s --tier quick" % pid,
            "thorough_cmd": "./run_check.py %s --tier thorough" % pid,
            "evidence_file": "evidence/%s.json" % pid,
            "replay_cmd_template": "./run_check.py --replay {path}",
            "engine": tx.get("engine", "rapidcheck"),
            "level_claimed": {"category": "exploration", "text": tx["level"], "design_ref": "DESIGN.md s5 (%s), s3 (oracles), s4 (domains and tolerances)" % pid},
            "level_note": tx["note"],
            "technique": tx["technique"],
        })
    else:
        na.append({"property_id": pid, "reason": MT.NOT_APPLICABLE.get(pid, "check not built yet (implementation in progress; see DESIGN.md s5)")})

m = {
    "version": 1,
    "setup_cmd": "./run_check.py --build all && ./run_check.py --selftest",
    "hooks": {
        "guard": "BZIYUE_SPLINETRAJECTORY_VERIF",
        "enable": "no hooks are needed: every check compiles its harness against /repo/include directly (clang++ -I/repo/include, ASan+UBSan or TSan); the guard name is reserved and unused",
        "baseline_off_cmd": "./scripts/baseline.sh",
        "source_commits": MT.HOOK_COMMITS,
        "add_only": True,
    },
    "engines": [
        {"name": "rapidcheck", "path": "harness/src/vmain.cpp", "serves_properties": [c["property_id"] for c in checks],
         "kind_free_text": "property-based testing: rapidcheck generates fixed-length word tapes (integrated shrinking), each check decodes its structured case from the tape and applies an explicit oracle; "
                           "one process per (binary, seed), fanned out over 16 cores by run_check.py; every binary is built with clang ASan+UBSan (TSan for the race half of C12)"},
    ] + MT.EXTRA_ENGINES,
    "checks": checks,
    "not_applicable": na,
    "notes": MT.NOTES,
}
json.dump(m, open(os.path.join(HERE, "MANIFEST.json"), "w"), indent=1)
print("MANIFEST.json: %d checks, %d not_applicable" % (len(checks), len(na)))
