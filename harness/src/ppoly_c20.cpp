// C20 - sampling (generateTimeSequence), arc length (getTrajectoryLength) and factory helpers (zero / constant).
#include "ppoly_gen.hpp"

#ifndef VDIM
#define VDIM 2
#endif

using namespace vf;
using namespace SplineTrajectory;

namespace c20 {

constexpr int D = VDIM;

// ---------------------------------------------------------------- (start, end, dt) triples
struct Triple { double a, b, dt; const char* cls; };

Triple gen_triple(Tape& t, double lo_hint, double hi_hint, bool have_range) {
  Triple r; r.cls = "";
  int c = t.pickw({3, 4, 2, 2, 3, 1, 2});
  auto gen_start = [&]() -> double {
    if (have_range) return lo_hint + (hi_hint - lo_hint) * t.range(0, 64) / 64.0;
    switch (t.pickw({4, 3, 2, 1})) {
      case 0: return 0.0;
      case 1: return t.sym(1024 * 50) / 1024.0;
      case 2: return t.sym(1000) * 1e3;
      default: return t.flag() ? 1e6 - 100 : -1e6;
    }
  };
  switch (c) {
    case 0: {  // dyadic: dt = 2^-k divides the interval exactly
      int k = t.range(0, 10);
      r.dt = pow2i(-k);
      r.a = have_range ? std::floor(gen_start() * 1024) / 1024 : std::floor(gen_start() * 1024) / 1024;
      r.b = r.a + t.range(0, 4000) * r.dt;
      r.cls = "dyadic-divides";
      break;
    }
    case 1: {  // nearly divides: dt = (b-a)/k computed in floating point
      r.a = gen_start();
      double len = (1 + t.range(0, 6399)) / 64.0 * pow10i(t.range(-2, 1));
      r.b = r.a + len;
      int k = 1 + t.range(0, 1999);
      r.dt = (r.b - r.a) / k;
      r.cls = "nearly-divides";
      break;
    }
    case 2: {  // decimal steps
      int j = t.range(0, 4);
      r.dt = pow10i(-j);
      r.a = gen_start();
      double maxlen = std::min(2e5 * r.dt, 2000.0);
      r.b = r.a + maxlen * t.range(0, 1000) / 1000.0;
      r.cls = "decimal-step";
      break;
    }
    case 3: {  // step larger than the interval
      r.a = gen_start();
      double len = t.range(0, 640) / 64.0;
      r.b = r.a + len;
      r.dt = len * (1 + t.range(1, 64) / 32.0) + (t.flag() ? 1.0 : 1e-4);
      r.cls = "step>interval";
      break;
    }
    case 4: {  // interval = m*dt + small remainder around the 1e-6 append threshold
      static const double rem[] = {1e-7, 5e-7, 9.9e-7, 1e-6, 1.01e-6, 2e-6, 1e-5, 1e-4, 1e-3, -1e-7, -1e-6, -2e-6, -1e-4};
      r.a = gen_start();
      static const double kScale[] = {1, 1, 1, 4, 25, 100, 1000};   // steps below, at and well above 1
      r.dt = (1 + t.range(0, 255)) / 256.0 * kScale[t.range(0, 6)];
      int m = 1 + t.range(0, r.dt > 1 ? 200 : 3000);
      int ri = t.range(0, 16);
      // absolute remainders around the 1e-6 threshold, and remainders of a few millionths OF A STEP on either side
      double rm = ri < 13 ? rem[ri] : (ri == 13 ? -0.5e-6 : (ri == 14 ? -0.99e-6 : (ri == 15 ? 0.5e-6 : -3e-6))) * r.dt;
      r.b = r.a + m * r.dt + rm;
      r.cls = r.dt > 1 ? "remainder-near-threshold(step>1)" : "remainder-near-threshold";
      break;
    }
    case 5: {  // zero-length interval
      r.a = gen_start(); r.b = r.a;
      r.dt = t.flag() ? 0.01 : (1 + t.range(0, 100)) / 16.0;
      r.cls = "zero-length";
      break;
    }
    default: {  // generic
      r.a = gen_start();
      r.b = r.a + t.range(0, 64000) / 64.0 * pow10i(t.range(-3, 0));
      r.dt = (1 + t.range(0, 9999)) * 1e-4 * (t.flag() ? 1.0 : 10.0);
      r.cls = "generic";
      break;
    }
  }
  if (r.b < r.a) r.b = r.a;
  if (r.dt < 1e-4) r.dt = 1e-4;
  // bound the step count
  if ((r.b - r.a) / r.dt > 2e5) r.dt = (r.b - r.a) / 2e5;
  if (r.a > 1e6) r.a = 1e6; if (r.a < -1e6) r.a = -1e6;
  if (r.b > 1e6 + 4000) r.b = 1e6 + 4000;
  if (r.b < r.a) r.b = r.a;
  return r;
}

// the contract of a generated time sequence
void check_sequence(Ctx& ctx, const std::vector<double>& v, const Triple& q) {
  const ld a = q.a, b = q.b, dt = q.dt;
  VCHECK(ctx, !v.empty(), "seq-empty", "time sequence is empty for [" << g17(q.a) << "," << g17(q.b) << "] dt=" << g17(q.dt));
  VCHECK(ctx, same_bits(v[0], q.a) || (v[0] == q.a), "seq-start", "sequence starts at " << hexd(v[0]) << " not at the requested start " << hexd(q.a));
  size_t n = v.size();
  double u = ulp_of(std::fabs(q.a) + std::fabs(q.b) + q.dt);
  for (size_t i = 0; i + 1 < n; ++i) {
    ld grid = a + (ld)i * dt;
    ld tol = 2.0L * (i + 1) * u;
    VCHECK(ctx, fabsl((ld)v[i] - grid) <= tol, "seq-grid",
           "sample " << i << " = " << g17(v[i]) << " is not start + i*dt = " << lg(grid) << " (n=" << n << ", [" << g17(q.a) << "," << g17(q.b) << "] dt=" << g17(q.dt) << ")");
  }
  for (size_t i = 0; i + 1 < n; ++i) {
    VCHECK(ctx, v[i + 1] > v[i], "seq-increasing", "samples " << i << "," << i + 1 << " not strictly increasing: " << hexd(v[i]) << " , " << hexd(v[i + 1]) << " ([" << g17(q.a) << "," << g17(q.b) << "] dt=" << g17(q.dt) << ")");
    VCHECK(ctx, (ld)v[i + 1] - (ld)v[i] <= dt + 4.0L * (i + 2) * u, "seq-gap",
           "gap between samples " << i << " and " << i + 1 << " is " << g17(v[i + 1] - v[i]) << " > requested step " << g17(q.dt) << " (n=" << n << ", [" << g17(q.a) << "," << g17(q.b) << "])");
  }
  {
    ld last = v[n - 1];
    ld grid = a + (ld)(n - 1) * dt;
    bool regular = fabsl(last - grid) <= 2.0L * n * u;
    bool is_end = (v[n - 1] == q.b);
    VCHECK(ctx, regular || is_end, "seq-last", "last sample " << g17(v[n - 1]) << " is neither on the grid nor the requested end " << g17(q.b));
    VCHECK(ctx, last <= b + 1e-6L + 1e-9L, "seq-overshoot", "sample " << g17(v[n - 1]) << " lies beyond the requested end " << g17(q.b) << " by more than 1e-6 (dt=" << g17(q.dt) << ")");
    VCHECK(ctx, fabsl(last - b) <= 1e-6L + 1e-9L, "seq-end",
           "sequence ends at " << g17(v[n - 1]) << ", not within 1e-6 of the requested end " << g17(q.b) << " (start=" << g17(q.a) << " dt=" << g17(q.dt) << " n=" << n << ")");
  }
}

// ---------------------------------------------------------------- part 1: sequences (+ batch evaluation over them)
void part_sequence(Tape& t, Ctx& ctx) {
  // a small trajectory to call the member on, and to batch-evaluate
  int nseg = t.rangez(1, 6, 2);
  int ncoef = t.rangez(1, 6, 4);
  PPModel<D> m;
  m.b = gen_breakpoints(t, nseg);
  gen_coeff_rows(t, m, nseg, ncoef);
  using PP = PPolyND<D>;
  PP pp(m.b, model_matrix<D, PP::MatrixType>(m), ncoef);
  bool sub = t.chance(1, 4);
  Triple q = gen_triple(t, m.b.front(), m.b.back(), sub);
  ctx.label(std::string("triple:") + q.cls);
  if (sub) ctx.label("triple:sub-range-of-trajectory");
  if (ctx.want_desc) ctx.desc << "\"part\": \"sequence\", \"start\": " << g17(q.a) << ", \"end\": " << g17(q.b) << ", \"dt\": " << g17(q.dt) << ", \"class\": \"" << q.cls << "\"";
  std::vector<double> v = pp.generateTimeSequence(q.a, q.b, q.dt);
  check_sequence(ctx, v, q);
  if (ctx.failed) return;
  {
    ld qd = ((ld)q.b - (ld)q.a) / (ld)q.dt;
    ld fr = qd - floorl(qd);
    if (fr > 1e-12L && fr < 1 - 1e-12L) ctx.label("nt:not-a-multiple");
    if (fabsl(qd - roundl(qd)) <= 4 * (ld)DBL_EPSILON * fmaxl(1, qd) && qd >= 1) ctx.label("nt:within-4ulp-of-multiple");
    ctx.nontrivial = (fr > 1e-12L && fr < 1 - 1e-12L) || (fabsl(qd - roundl(qd)) <= 4 * (ld)DBL_EPSILON * fmaxl(1, qd) && qd >= 1 && fr != 0);
  }
  // the one-argument overload uses the trajectory's own range
  {
    Triple w{pp.getStartTime(), pp.getEndTime(), q.dt, "whole"};
    if ((w.b - w.a) / w.dt <= 2e5) {
      std::vector<double> vw = pp.generateTimeSequence(q.dt);
      check_sequence(ctx, vw, w);
      if (ctx.failed) return;
      VCHECK(ctx, vw == pp.generateTimeSequence(w.a, w.b, q.dt), "seq-overload", "generateTimeSequence(dt) differs from generateTimeSequence(start,end,dt)");
    }
  }
  // batch evaluation over the sequence equals pointwise evaluation
  if (v.size() <= 20000) {
    int k = t.range(0, ncoef);
    auto res = pp.evaluate(v, k);
    VCHECK(ctx, res.size() == v.size(), "batch", "batch evaluate returned " << res.size() << " values for " << v.size() << " times");
    for (size_t i = 0; i < v.size(); ++i)
      VCHECK(ctx, vec_same(res[i], pp.evaluate(v[i], k)), "batch", "batch evaluate differs from pointwise at sample " << i << " t=" << hexd(v[i]) << " k=" << k);
    // the overloads that take the derivative as an enumerator (orders 0..6, also above the polynomial degree)
    int k2 = t.range(0, 6);
    auto res2 = pp.evaluate(v, static_cast<Deriv>(k2));
    VCHECK(ctx, res2.size() == v.size(), "batch", "batch evaluate (enumerator overload) returned " << res2.size() << " values for " << v.size() << " times");
    for (size_t i = 0; i < v.size(); ++i)
      VCHECK(ctx, vec_same(res2[i], pp.evaluate(v[i], k2)) && vec_same(res2[i], pp.evaluate(v[i], static_cast<Deriv>(k2))), "batch",
             "batch evaluate through the enumerator overload differs from pointwise at sample " << i << " t=" << hexd(v[i]) << " order " << k2 << " (" << ncoef << " coefficients)");
    if (k2 >= ncoef) ctx.label("batch:enumerator-order-above-degree");
  }
}

// ---------------------------------------------------------------- part 2: arc length
// Gauss-Legendre 8-point nodes on [-1,1]
static const ld GLx[4] = {0.1834346424956498049394761L, 0.5255324099163289858177390L, 0.7966664774136267395915539L, 0.9602898564975362316835609L};
static const ld GLw[4] = {0.3626837833783619829651504L, 0.3137066458778872873379622L, 0.2223810344533744705443560L, 0.1012285362903762591525314L};

template <class F>
ld gl_integrate(F&& f, ld a, ld b, int sub) {
  ld s = 0, h = (b - a) / sub;
  for (int i = 0; i < sub; ++i) {
    ld c = a + (i + 0.5L) * h, r = 0.5L * h;
    for (int j = 0; j < 4; ++j) s += GLw[j] * r * (f(c + r * GLx[j]) + f(c - r * GLx[j]));
  }
  return s;
}

template <class PP>
void length_checks(Tape& t, Ctx& ctx, const PP& pp, const char* what) {
  using VectorType = typename PP::VectorType;
  const auto& bk = pp.getBreakpoints();
  const auto& C = pp.getCoefficients();
  int nc = pp.getNumCoeffs(), nseg = pp.getNumSegments();
  double T0 = bk.front(), T1 = bk.back();
  // sub-range or the whole range
  double a = T0, b = T1;
  if (t.flag()) { a = T0 + (T1 - T0) * t.range(0, 32) / 64.0; b = a + (T1 - a) * t.range(1, 64) / 64.0; }
  double dt = (b - a) / (8 + t.range(0, 400));
  if (t.chance(1, 5)) dt = 0.01;
  if (dt < 1e-4) dt = 1e-4;
  if ((b - a) / dt > 20000) dt = (b - a) / 20000;
  // steps that nearly divide the interval: the last regular sample falls just short of the end,
  // on either side of the 1e-6 threshold below which the end point is not appended
  if (t.chance(1, 4) && b - a > 1e-3) {
    static const double kLeft[] = {2.5e-7, 9.9e-7, 1.01e-6, 3e-6, 0.0};
    int n = 8 + t.range(0, 200);
    dt = (b - a - kLeft[t.range(0, 4)]) / n;
    ctx.label("length-step-nearly-divides");
  }
  if (ctx.want_desc) ctx.desc << ", \"trajectory\": \"" << what << "\", \"segments\": " << nseg << ", \"from\": " << g17(a) << ", \"to\": " << g17(b) << ", \"dt\": " << g17(dt);
  // model: seg lookup + long double derivative evaluation from the published coefficients
  auto segof = [&](ld tt) { int s = 0; if (tt >= bk.back()) return nseg - 1; while (s + 1 < nseg && tt >= bk[s + 1]) ++s; return s; };
  auto dnorm = [&](ld tt, int k) {
    int s = segof(tt);
    ld u = tt - (ld)bk[s], acc = 0;
    for (int d = 0; d < D; ++d) {
      RefVal r = ref_poly_eval([&](int n) { return C(s * nc + n, d); }, nc, u, k);
      acc += r.value * r.value;
    }
    return sqrtl(acc);
  };
  auto integrate_pieces = [&](int k, int sub) {
    ld tot = 0;
    for (int s = 0; s < nseg; ++s) {
      ld lo = std::max<ld>(a, bk[s]), hi = std::min<ld>(b, bk[s + 1]);
      if (s == 0) lo = std::min<ld>(lo, a);
      if (hi > lo) tot += gl_integrate([&](ld x) { return dnorm(x, k); }, lo, hi, sub);
    }
    return tot;
  };
  for (int pass = 0; pass < 2; ++pass) {
    double h = pass == 0 ? dt : dt / 2;
    double L = pp.getTrajectoryLength(a, b, h);
    std::vector<double> v = pp.generateTimeSequence(a, b, h);
    // (i) it is the left-endpoint Riemann sum of speed over the generated sequence
    ld riem = 0, maxstep = 0;
    for (size_t i = 0; i + 1 < v.size(); ++i) {
      VectorType vel = pp.evaluate(v[i], 1);
      ld sp = 0; for (int d = 0; d < D; ++d) sp += (ld)vel(d) * vel(d);
      ld step = (ld)v[i + 1] - v[i];
      riem += sqrtl(sp) * step;
      maxstep = std::max(maxstep, step);
    }
    VCHECK(ctx, fabsl((ld)L - riem) <= 4e-16L * (v.size() + 16) * riem + 1e-300L, "length-riemann",
           what << ": getTrajectoryLength(" << g17(a) << "," << g17(b) << "," << g17(h) << ")=" << g17(L) << " but the left Riemann sum of speed over generateTimeSequence is " << lg(riem));
    // (ii) distance to the true arc length
    ld L1 = integrate_pieces(1, 16), L2 = integrate_pieces(1, 32);
    ld A1 = integrate_pieces(2, 16), A2 = integrate_pieces(2, 32);
    // quadrature error estimates (the integrands are norms of polynomials: smooth except where they vanish)
    ld errL = 2 * fabsl(L1 - L2), errA = 2 * fabsl(A1 - A2);
    ld Aup = A2 + errA;
    if (errL <= 0.1L * maxstep * Aup + 1e-9L * (1 + L2) && errA <= 0.1L * A2 + 1e-12L) {
      // the sequence may stop up to 1e-6 short of (or beyond) the requested end: the sum then covers
      // [a, v.back()], and the stretch between v.back() and b contributes at most gap * max speed
      ld gap = v.empty() ? 0 : fabsl((ld)b - (ld)v.back());
      ld tail = gap * (dnorm((ld)b, 1) + Aup);
      if (gap > 0) ctx.label("length-sequence-ends-short-of-end");
      ld bound = maxstep * Aup * (1 + 1e-9L) + tail * (1 + 1e-9L) + errL + 1e-9L * (1 + L2);
      ctx.maxi("length_err_over_bound", (double)(fabsl((ld)L - L2) / bound));
      VCHECK(ctx, fabsl((ld)L - L2) <= bound, "length-bound",
             what << ": |length(dt=" << g17(h) << ") - true arc length| = " << lg(fabsl((ld)L - L2)) << " exceeds step*integral|x''| = " << lg(bound) << " (length " << g17(L) << ", true " << lg(L2) << ")");
      ctx.label("length-bound-checked");
    } else ctx.label("length-bound-skipped(quadrature-not-converged)");
  }
  // default-argument overloads
  if ((T1 - T0) / 0.01 <= 20000) {
    VCHECK(ctx, same_val(pp.getTrajectoryLength(), pp.getTrajectoryLength(T0, T1, 0.01)) && same_val(pp.getTrajectoryLength(0.02), pp.getTrajectoryLength(T0, T1, 0.02)),
           "length-overload", what << ": getTrajectoryLength default-argument overloads disagree with the explicit range");
    // the length is a pure function of the trajectory's CURRENT data: an object that reported the length of other data before
    // (same step) and was then updated in place reports the same as this one
    if (t.flag()) {
      typename PP::MatrixType C2 = C * (t.flag() ? 2.0 : -0.5);
      PP hp(bk, C2, nc);
      double hs = t.flag() ? 0.01 : 0.02;
      double before = hs == 0.01 ? hp.getTrajectoryLength() : hp.getTrajectoryLength(hs);
      (void)before;
      if (t.flag()) (void)hp.getTrajectoryLength(T0, T1, hs);
      hp.update(bk, C, nc);
      double after = hs == 0.01 ? hp.getTrajectoryLength() : hp.getTrajectoryLength(hs);
      double ref = hs == 0.01 ? pp.getTrajectoryLength() : pp.getTrajectoryLength(hs);
      VCHECK(ctx, same_val(after, ref) && same_val(hp.getTrajectoryLength(T0, T1, hs), pp.getTrajectoryLength(T0, T1, hs)), "length-after-update",
             what << ": getTrajectoryLength(" << g17(hs) << ") = " << g17(after) << " on an object that was queried, then updated in place to these data; a fresh object gives " << g17(ref));
      ctx.label("length:queried-then-updated");
    }
  }
}

void part_length(Tape& t, Ctx& ctx) {
  if (ctx.want_desc) ctx.desc << "\"part\": \"length\"";
  int kind = t.range(0, 3);
  int N = t.rangez(1, 6, 2);
  std::vector<double> T(N);
  for (auto& x : T) x = (4 + t.range(0, 60)) / 16.0;
  double t0 = t.sym(80) / 8.0;
  if (kind < 3) {
    BoundaryConditions<D> bc;
    for (int d = 0; d < D; ++d) {
      bc.start_velocity(d) = t.sym(64) / 32.0; bc.end_velocity(d) = t.sym(64) / 32.0;
      bc.start_acceleration(d) = t.sym(64) / 32.0; bc.end_acceleration(d) = t.sym(64) / 32.0;
    }
    if (kind == 0) {
      CubicSplineND<D>::MatrixType P(N + 1, D);
      for (int i = 0; i <= N; ++i) for (int d = 0; d < D; ++d) P(i, d) = t.sym(640) / 64.0;
      CubicSplineND<D> sp(T, P, t0, bc);
      ctx.label("length:cubic");
      length_checks(t, ctx, sp.getTrajectory(), "cubic spline");
    } else if (kind == 1) {
      QuinticSplineND<D>::MatrixType P(N + 1, D);
      for (int i = 0; i <= N; ++i) for (int d = 0; d < D; ++d) P(i, d) = t.sym(640) / 64.0;
      QuinticSplineND<D> sp(T, P, t0, bc);
      ctx.label("length:quintic");
      length_checks(t, ctx, sp.getTrajectory(), "quintic spline");
    } else {
      SepticSplineND<D>::MatrixType P(N + 1, D);
      for (int i = 0; i <= N; ++i) for (int d = 0; d < D; ++d) P(i, d) = t.sym(640) / 64.0;
      SepticSplineND<D> sp(T, P, t0, bc);
      ctx.label("length:septic");
      length_checks(t, ctx, sp.getTrajectory(), "septic spline");
    }
  } else {
    // hand-built C1 piecewise cubic (Hermite data): positions and velocities at the knots
    using PP = PPolyND<D>;
    std::vector<double> bk(N + 1); bk[0] = t0;
    for (int i = 0; i < N; ++i) bk[i + 1] = bk[i] + T[i];
    PP::MatrixType P(N + 1, D), V(N + 1, D), Cm(4 * N, D);
    for (int i = 0; i <= N; ++i) for (int d = 0; d < D; ++d) { P(i, d) = t.sym(640) / 64.0; V(i, d) = t.sym(128) / 32.0; }
    for (int i = 0; i < N; ++i) {
      double h = bk[i + 1] - bk[i];
      for (int d = 0; d < D; ++d) {
        double dp = P(i + 1, d) - P(i, d);
        Cm(4 * i, d) = P(i, d); Cm(4 * i + 1, d) = V(i, d);
        Cm(4 * i + 2, d) = (3 * dp / h - 2 * V(i, d) - V(i + 1, d)) / h;
        Cm(4 * i + 3, d) = (-2 * dp / h + V(i, d) + V(i + 1, d)) / (h * h);
      }
    }
    PP pp(bk, Cm, 4);
    ctx.label("length:hermite-c1");
    length_checks(t, ctx, pp, "C1 Hermite PPolyND");
  }
  ctx.nontrivial = true;
}

// ---------------------------------------------------------------- part 3: factories
template <class PP, int FIXED>
void factories(Tape& t, Ctx& ctx, const char* tname) {
  using VectorType = typename PP::VectorType;
  int nseg = t.chance(1, 4) ? (31 + t.range(0, 3)) : t.rangez(1, 12, 2);
  std::vector<double> bk = gen_breakpoints(t, nseg);
  // "every breakpoint vector": also vectors with bit-equal neighbours (a piece of zero length) and all entries equal
  if (t.chance(1, 5)) {
    if (t.chance(1, 4)) { for (auto& x : bk) x = bk[0]; ctx.label("factory-breakpoints:all-equal"); }
    else { int reps = 1 + t.range(0, 1); for (int r = 0; r < reps; ++r) { int i = t.range(0, nseg - 1); bk[i + 1] = bk[i]; for (int j = i + 2; j <= nseg; ++j) bk[j] = std::max(bk[j], bk[i + 1]); } ctx.label("factory-breakpoints:repeated-entry"); }
  }
  int maxc = FIXED > 0 ? FIXED : 12;
  int ncoef = t.rangez(1, maxc, 1);
  VectorType cv;
  for (int d = 0; d < D; ++d) cv(d) = coef_from_word(t.raw());
  if (ctx.want_desc) ctx.desc << "\"part\": \"factory\", \"container\": \"" << tname << "\", \"segments\": " << nseg << ", \"ncoef\": " << ncoef << ", \"constant\": \"" << vec_str(cv) << "\"";
  PP z = PP::zero(bk, ncoef);
  PP z1 = PP::zero(bk);
  PP c = PP::constant(bk, cv);
  VCHECK(ctx, z.isInitialized() && z.getNumSegments() == nseg && z.getNumCoeffs() == ncoef && z.getBreakpoints() == bk, "factory-zero",
         tname << ": zero(breakpoints," << ncoef << ") not initialised on the given breakpoints (segments " << z.getNumSegments() << ", ncoef " << z.getNumCoeffs() << ")");
  VCHECK(ctx, z1.isInitialized() && z1.getNumSegments() == nseg && z1.getNumCoeffs() == 1 && z1.getBreakpoints() == bk, "factory-zero", tname << ": zero(breakpoints) not initialised with one coefficient");
  VCHECK(ctx, c.isInitialized() && c.getNumSegments() == nseg && c.getNumCoeffs() == 1 && c.getBreakpoints() == bk, "factory-constant", tname << ": constant() not initialised on the given breakpoints");
  int Q = t.rangez(1, 12, 4);
  for (int q = 0; q < Q; ++q) {
    int j = t.range(0, nseg);
    double tq;
    switch (t.range(0, 5)) {
      case 0: tq = bk[j]; break;
      case 1: tq = std::nextafter(bk[j], -INFINITY); break;
      case 2: { int s = std::min(j, nseg - 1); tq = bk[s] + (bk[s + 1] - bk[s]) * t.range(1, 63) / 64.0; break; }
      case 3: tq = bk.front() - 1 - t.range(0, 100); break;
      case 4: tq = bk.back() + 1 + t.range(0, 100); break;
      default: tq = t.flag() ? 1e300 : -1e12; break;
    }
    int k = t.range(0, ncoef + 2);
    int hint = t.range(-2, nseg + 1);
    VectorType vz = z.evaluate(tq, k), vzh = z.evaluate(tq, &hint, k), vc = c.evaluate(tq, k), vz1 = z1.evaluate(tq, k);
    VCHECK(ctx, (vz.array() == 0).all() && (vzh.array() == 0).all() && (vz1.array() == 0).all(), "factory-zero",
           tname << ": zero trajectory evaluates to " << vec_str(vz) << " at t=" << hexd(tq) << " k=" << k);
    if (k == 0) VCHECK(ctx, vec_same(vc, cv), "factory-constant", tname << ": constant trajectory evaluates to " << vec_str(vc) << " instead of " << vec_str(cv) << " at t=" << hexd(tq) << " (piece " << j << " of " << nseg << ")");
    else VCHECK(ctx, (vc.array() == 0).all(), "factory-constant", tname << ": derivative " << k << " of the constant trajectory is " << vec_str(vc) << " at t=" << hexd(tq));
    int hs = t.range(-2, nseg + 1);
    VectorType vch = c.evaluate(tq, &hs, 0);
    VCHECK(ctx, vec_same(vch, cv), "factory-constant", tname << ": hinted evaluation of the constant trajectory gives " << vec_str(vch));
    VCHECK(ctx, vec_same(c[std::min(j, nseg - 1)].evaluate(0.25, 0), cv), "factory-constant", tname << ": segment " << j << " of the constant trajectory does not evaluate to the constant");
  }
  VCHECK(ctx, (c.derivative(1).evaluate(bk[0], 0).array() == 0).all() && (z.derivative(1).evaluate(bk[0], 0).array() == 0).all(), "factory-derivative", tname << ": derivative trajectory of a factory trajectory is not zero");
  ctx.label(std::string("factory:") + tname);
  ctx.nontrivial = nseg >= 2;
}

void check(Tape& t, Ctx& ctx) {
  int part = t.pickw({5, 2, 3});
  if (part == 0) part_sequence(t, ctx);
  else if (part == 1) part_length(t, ctx);
  else {
    switch (t.range(0, 2)) {
      case 0: factories<PPolyND<D>, 0>(t, ctx, "dynamic"); break;
      case 1: factories<PPolyND<D, 4>, 4>(t, ctx, "fixed4"); break;
      default: factories<PPolyND<D, 8>, 8>(t, ctx, "fixed8"); break;
    }
  }
}

bool selftest(std::string& m) {
  // Gauss-Legendre rule integrates x^6 exactly: int_0^2 x^6 = 128/7
  ld v = gl_integrate([](ld x) { return x * x * x * x * x * x; }, 0, 2, 1);
  if (fabsl(v - 128.0L / 7) > 1e-15L) { m = "Gauss-Legendre rule wrong"; return false; }
  // sequence contract accepts a hand-made correct sequence and rejects wrong ones
  Ctx c;
  Triple q{0, 1, 0.3, "t"};
  check_sequence(c, {0, 0.3, 0.6, 0.9, 1.0}, q);
  if (c.failed) { m = "contract rejects a correct sequence: " + c.fail_msg; return false; }
  c.reset(); check_sequence(c, {0, 0.3, 0.6, 1.0}, q);
  if (!c.failed) { m = "contract accepts a sequence with a missing regular sample"; return false; }
  c.reset(); check_sequence(c, {0, 0.3, 0.6, 0.9}, q);
  if (!c.failed) { m = "contract accepts a sequence that stops short of the end"; return false; }
  c.reset(); check_sequence(c, {0, 0.3, 0.6, 0.9, 1.2}, q);
  if (!c.failed) { m = "contract accepts a sequence overshooting the end"; return false; }
  return true;
}

Registrar reg({"C20", "PPolyND helpers dim=" + std::to_string(VDIM), 256, 0, check, selftest});

}  // namespace c20
