"""props_table.py - which binaries exist, and which jobs each property runs per tier."""

TARGETS = {}
PROPS = {}
_ORDER = ["C%02d" % i for i in range(1, 21)]


def prop_index(p):
    return _ORDER.index(p) if p in _ORDER else 99


def T(name, src, defs=(), san="asan", selftest=False, libs=(), cflags=()):
    TARGETS[name] = {"src": src, "defs": list(defs), "san": san, "selftest": selftest, "libs": list(libs), "cflags": list(cflags)}


def split(target, cases, workers, prop=None, max_size=100, enum=False, timeout=None):
    """`workers` rapidcheck processes on the same target, each with its own seed and cases//workers cases"""
    out = []
    for w in range(workers):
        j = {"target": target, "cases": max(1, cases // workers), "max_size": max_size, "worker": w, "workers": workers}
        if prop:
            j["prop"] = prop
        if timeout:
            j["timeout"] = timeout
        out.append(j)
    return out


def prop_jobs(p, tier):
    return PROPS[p]["jobs"](tier)


def prop_targets(p, tier):
    return list(dict.fromkeys(j["target"] for j in prop_jobs(p, tier)))


# ---------------------------------------------------------------------------------------------
# C17 time maps
T("timemap", "timemap_props.cpp", selftest=True)
PROPS["C17"] = {
    "jobs": lambda tier: split("timemap", 320000 if tier == "quick" else 16000000, 16),
    "floor_quick": 100000, "floor_thorough": 5000000,
    "rule": "each case draws 6 optimisation variables tau (classes: 0/denormal, +-2^k, k/64, decimal up to 1e6, log-uniform small, "
            "extremes; each shifted by -3..3 ulp), a gap for the strict-increase pair, incoming gradients, a duration T in [1e-6,1e6] and a "
            "step 2^-k for the C1 test at the switch, all decoded from a rapidcheck-generated word tape; non-trivial = some |tau| < 2^-20, "
            "or a neighbour pair / increase pair straddling tau=0, or T within 2^-20 of 1; distinct = distinct 64-bit hash of the consumed tape",
    "tolerances": {"toTime": "8 eps relative to long-double closed form", "round trips": "64 eps", "backward": "16 eps relative",
                   "backward vs FD of toTime": "1e-6 relative + Richardson/rounding slack (R5)"},
    "assumptions": ["IEEE-754 double, round-to-nearest, no -ffast-math (harness build flags)",
                    "long double (x87 80-bit) closed forms T(tau), T'(tau) are the reference; validated against their own finite differences in --selftest"],
}
