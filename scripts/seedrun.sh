#!/bin/bash
# usage: seedrun.sh <patch.diff> <prop> [<prop> ...]
# Apply a seeded change to a SCRATCH copy of /repo's HEAD (never to /repo itself), run the quick checks against it with separate
# build / replay / evidence directories, remove everything afterwards.
set -u
P=$(readlink -f "$1"); shift
cd /verif
W=$(mktemp -d /tmp/st-verif-seedrun.XXXXXX)
trap 'git -C /repo worktree remove --force $W/repo 2>/dev/null; rm -rf $W' EXIT
git -C /repo worktree add -q --detach $W/repo HEAD || exit 2
git -C $W/repo apply "$P" || { echo "patch does not apply"; exit 2; }
export VERIF_REPO=$W/repo VERIF_BUILD=$W/build VERIF_REPLAYS=/verif/replays VERIF_EVID=$W/evidence
for prop in "$@"; do
  echo "=== $prop with $(basename $(dirname $P))/$(basename $P)"
  ./run_check.py $prop --tier ${TIER:-quick} 2>&1 | grep -v "^building\|^build finished" | cut -c1-400 | tail -8
  echo "rc=${PIPESTATUS[0]}"
done
