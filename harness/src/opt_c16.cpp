// C16 - invalid problems rejected, valid ones accepted, verdict reported coherently.
//   "C16"  : generated histories of initialisations on one optimizer + PPolyND construction/update/at()
//   "C16e" : exhaustive single placement of NaN/+Inf/-Inf in every input field (N<=4), enumerated
#include "ppoly_gen.hpp"
#include "SplineOptimizer.hpp"

#ifndef VDIM
#define VDIM 2
#endif

using namespace vf;
using namespace SplineTrajectory;

namespace c16 {

constexpr int D = VDIM;
const double MINDUR = 1e-3;

struct InitInput {
  std::vector<double> T;
  Eigen::MatrixXd P;  // rows x D
  double t0 = 0;
  BoundaryConditions<D> bc;
};

// the statement's predicate, written independently of the library
template <int ORDER>
bool expect_valid(const InitInput& in, int* n_offending = nullptr) {
  int bad = 0;
  int N = (int)in.T.size();
  if (N < 1) ++bad;
  if (in.P.rows() != N + 1) ++bad;
  if (!std::isfinite(in.t0)) ++bad;
  for (double x : in.T) if (!(std::isfinite(x) && x >= MINDUR)) ++bad;
  for (Eigen::Index i = 0; i < in.P.rows(); ++i) for (int d = 0; d < D; ++d) if (!std::isfinite(in.P(i, d))) ++bad;
  auto vecbad = [&](const Eigen::Matrix<double, D, 1>& v) { int b = 0; for (int d = 0; d < D; ++d) if (!std::isfinite(v(d))) ++b; return b; };
  bad += vecbad(in.bc.start_velocity) + vecbad(in.bc.end_velocity);
  if (ORDER >= 5) bad += vecbad(in.bc.start_acceleration) + vecbad(in.bc.end_acceleration);
  if (ORDER >= 7) bad += vecbad(in.bc.start_jerk) + vecbad(in.bc.end_jerk);
  if (n_offending) *n_offending = bad;
  return bad == 0;
}

inline double special(int k) { return k == 0 ? std::numeric_limits<double>::quiet_NaN() : (k == 1 ? INFINITY : -INFINITY); }

std::string in_desc(const InitInput& in) {
  std::ostringstream o;
  o << "{\"t0\": \"" << g17(in.t0) << "\", \"T\": [";
  for (size_t i = 0; i < in.T.size(); ++i) o << (i ? "," : "") << "\"" << hexd(in.T[i]) << "\"";
  o << "], \"rows\": " << in.P.rows() << "}";
  return o.str();
}

template <class Opt, int ORDER>
void verdict_checks(Ctx& ctx, Opt& opt, bool ret, bool expected, const InitInput& in, const char* route, const char* oname) {
  VCHECK(ctx, ret == expected, expected ? "valid-rejected" : "invalid-accepted",
         oname << " setInitState(" << route << ") returned " << ret << " but the problem is " << (expected ? "valid" : "invalid") << ": " << in_desc(in));
  bool iv = opt.isValid();
  bool bv = static_cast<bool>(opt);
  std::string le = opt.getLastError();
  VCHECK(ctx, iv == ret && bv == ret, "verdict-incoherent", oname << ": isValid()=" << iv << " bool()=" << bv << " but setInitState returned " << ret);
  VCHECK(ctx, le.empty() == ret, "message-incoherent", oname << ": getLastError() is " << (le.empty() ? "empty" : "non-empty") << " although the verdict is " << ret);
  std::string msg = "stale";
  bool cv = opt.checkValidity(&msg);
  bool cv2 = opt.checkValidity();
  VCHECK(ctx, cv == ret && cv2 == ret, "verdict-incoherent", oname << ": checkValidity() = " << cv << "/" << cv2 << " but setInitState returned " << ret);
  VCHECK(ctx, msg.empty() == ret, "message-incoherent", oname << ": checkValidity(&msg) leaves msg " << (msg.empty() ? "empty" : "non-empty") << " although the verdict is " << ret);
  VCHECK(ctx, opt.getLastError().empty() == ret && opt.isValid() == ret, "verdict-incoherent", oname << ": verdict changed after read-only queries");
}

template <class Opt>
bool do_init(Opt& opt, const InitInput& in, bool by_points, std::vector<double>* tp_out) {
  typename Opt::WaypointsType W = in.P;
  if (!by_points) return opt.setInitState(in.T, W, in.t0, in.bc);
  std::vector<double> tp(in.T.size() + 1);
  tp[0] = in.t0;
  for (size_t i = 0; i < in.T.size(); ++i) tp[i + 1] = tp[i] + in.T[i];
  if (tp_out) *tp_out = tp;
  return opt.setInitState(tp, W, in.bc);
}

// durations palette around the 1 ms threshold
double gen_duration(Tape& t, bool* near_threshold) {
  int c = t.pickw({10, 2, 2, 2, 1, 1, 1, 1, 1, 1, 1, 1, 1});
  *near_threshold = (c >= 1 && c <= 5);
  switch (c) {
    case 0: return (1 + t.range(0, 63)) / 16.0;
    case 1: return 1e-3;
    case 2: return std::nextafter(1e-3, 0.0);
    case 3: return std::nextafter(1e-3, 1.0);
    case 4: return 1e-3 * (1 + pow2i(-30));
    case 5: return 1e-3 * (1 - pow2i(-30));
    case 6: return 0.0;
    case 7: return -1.0 - t.range(0, 3);
    case 8: return 4.9406564584124654e-324;
    case 9: return 1e300;
    case 10: return special(t.range(0, 2));
    case 11: return -1e-3;
    default: return 2e-3;
  }
}

template <int ORDER, class Spline>
void run_history(Tape& t, Ctx& ctx, const char* oname) {
  using Opt = SplineOptimizer<D, Spline>;
  Opt opt;
  int rounds = t.rangez(1, 6, 2);
  ctx.label(std::string("order:") + oname);
  if (ctx.want_desc) ctx.desc << "\"part\": \"optimizer\", \"order\": \"" << oname << "\", \"dim\": " << D << ", \"inits\": [";
  bool nt = false;
  bool prev_stored_valid_known = false;
  InitInput prev_in; bool have_prev = false;
  for (int r = 0; r < rounds; ++r) {
    InitInput in;
    int N = t.rangez(0, 5, 2);
    bool near = false;
    in.T.resize(N);
    for (auto& x : in.T) {
      bool nr = false;
      x = t.chance(1, 4) ? gen_duration(t, &nr) : (1 + t.range(0, 63)) / 16.0;
      near = near || nr;
    }
    int rows = N + 1;
    switch (t.pickw({12, 1, 1, 1})) { case 1: rows = 0; break; case 2: rows = N; break; case 3: rows = N + 2; break; default: break; }
    in.P.resize(rows, D);
    for (int i = 0; i < rows; ++i) for (int d = 0; d < D; ++d) in.P(i, d) = t.sym(640) / 64.0;
    in.t0 = t.chance(1, 8) ? special(t.range(0, 2)) : t.sym(80) / 8.0;
    auto fillv = [&](Eigen::Matrix<double, D, 1>& v) { for (int d = 0; d < D; ++d) v(d) = t.sym(64) / 16.0; };
    fillv(in.bc.start_velocity); fillv(in.bc.start_acceleration); fillv(in.bc.start_jerk);
    fillv(in.bc.end_velocity); fillv(in.bc.end_acceleration); fillv(in.bc.end_jerk);
    // 0..3 non-finite placements in waypoints / boundary fields
    int np = t.pickw({5, 4, 1, 1});
    for (int k = 0; k < np; ++k) {
      int f = t.range(0, 6);
      double sv = special(t.range(0, 2));
      int d = t.range(0, D - 1);
      if (f == 0) { if (rows > 0) in.P(t.range(0, rows - 1), d) = sv; }
      else if (f == 1) in.bc.start_velocity(d) = sv;
      else if (f == 2) in.bc.start_acceleration(d) = sv;
      else if (f == 3) in.bc.start_jerk(d) = sv;
      else if (f == 4) in.bc.end_velocity(d) = sv;
      else if (f == 5) in.bc.end_acceleration(d) = sv;
      else in.bc.end_jerk(d) = sv;
    }
    // huge but finite magnitudes are valid data (a finiteness test through a norm or a product overflows for them)
    if (t.chance(1, 6)) {
      static const double huge[] = {1e153, 1e155, 1e200, 1e300, -1e160, 1.7e308};
      double hv = huge[t.range(0, 5)];
      int f = t.range(0, 6), d = t.range(0, D - 1);
      if (f == 0) { if (rows > 0) in.P(t.range(0, rows - 1), d) = hv; }
      else if (f == 1) in.bc.start_velocity(d) = hv; else if (f == 2) in.bc.start_acceleration(d) = hv; else if (f == 3) in.bc.start_jerk(d) = hv;
      else if (f == 4) in.bc.end_velocity(d) = hv; else if (f == 5) in.bc.end_acceleration(d) = hv; else in.bc.end_jerk(d) = hv;
      ctx.label("huge-finite-value");
    }
    // 1/4 of the rounds re-submit exactly the previous input (the verdict AND the message must be produced again)
    if (r > 0 && have_prev && t.chance(1, 4)) { in = prev_in; N = (int)in.T.size(); rows = (int)in.P.rows(); ctx.label("resubmit-identical-input"); }
    prev_in = in; have_prev = true;
    int route = t.pickw({5, 4, 1});  // durations / time points / empty time points
    int off = 0;
    if (route == 2) {
      std::vector<double> empty;
      typename Opt::WaypointsType W = in.P;
      bool ret = opt.setInitState(empty, W, in.bc);
      VCHECK(ctx, !ret && !opt.isValid() && !static_cast<bool>(opt) && !opt.getLastError().empty(), "empty-timepoints",
             oname << ": empty time-point vector must be rejected with a message");
      ctx.label("route:empty-time-points");
      if (ctx.want_desc) ctx.desc << (r ? "," : "") << "\"empty-time-points\"";
      continue;
    }
    bool by_points = (route == 1);
    std::vector<double> tp;
    // for the time-point route the durations the optimizer sees are the rounded differences of the points
    InitInput eff = in;
    if (by_points) {
      // a sixth of the time-point submissions use stamps far from zero (1e6 ... epoch scale), where one millisecond is a few
      // hundred to a few million ulps, and place one stamp so that the difference the optimizer forms is the largest
      // representable one below, or the smallest one at or above, one millisecond
      int near_seg = -1; bool below = false;
      if (N >= 1 && std::isfinite(in.t0) && t.chance(1, 6)) {
        static const double kFar[] = {1e6, -3e6, 1.7e9, 1099511627776.0, -2.5e8, 123456.789};
        in.t0 = kFar[t.range(0, 5)];
        near_seg = t.range(0, N - 1); below = t.flag();
        ctx.label("time-points:far-from-zero-at-threshold");
      }
      tp.resize(N + 1); tp[0] = in.t0;
      for (int i = 0; i < N; ++i) {
        tp[i + 1] = tp[i] + in.T[i];
        if (i == near_seg) {
          double c = tp[i] + 1e-3;
          while (c - tp[i] >= 1e-3) c = std::nextafter(c, -INFINITY);   // largest stamp whose difference is below 1 ms
          if (!below) c = std::nextafter(c, INFINITY);                    // smallest stamp whose difference reaches 1 ms
          tp[i + 1] = c; near = true;
        }
      }
      for (int i = 0; i < N; ++i) eff.T[i] = tp[i + 1] - tp[i];
      eff.t0 = tp[0];
    }
    bool expected = expect_valid<ORDER>(eff, &off);
    // the optimisation flags say which quantities are decision variables; they have no say in what a valid problem is
    if (t.chance(1, 3)) {
      unsigned fb = (unsigned)t.range(0, 255);
      OptimizationFlags f;
      f.start_p = fb & 1; f.start_v = fb & 2; f.start_a = fb & 4; f.start_j = fb & 8; f.end_p = fb & 16; f.end_v = fb & 32; f.end_a = fb & 64; f.end_j = fb & 128;
      opt.setOptimizationFlags(f);
      ctx.label("flags-set-before-init");
    }
    bool ret;
    {
      typename Opt::WaypointsType W = in.P;
      ret = by_points ? opt.setInitState(tp, W, in.bc) : opt.setInitState(in.T, W, in.t0, in.bc);
    }
    verdict_checks<Opt, ORDER>(ctx, opt, ret, expected, eff, by_points ? "time points" : "durations", oname);
    if (ctx.failed) return;
    ctx.label(expected ? "verdict:valid" : "verdict:invalid");
    ctx.label(by_points ? "route:time-points" : "route:durations");
    if (off == 1) { nt = true; ctx.label("nt:single-offender"); }
    if (near) { nt = true; ctx.label("nt:duration-at-threshold"); }
    if (ctx.want_desc) ctx.desc << (r ? "," : "") << "{\"N\": " << N << ", \"rows\": " << rows << ", \"offending\": " << off << ", \"by_points\": " << (by_points ? "true" : "false") << ", \"expected\": " << (expected ? "true" : "false") << "}";
    (void)prev_stored_valid_known;
  }
  if (ctx.want_desc) ctx.desc << "]";
  ctx.nontrivial = nt;
}

// ---------------------------------------------------------------- PPolyND half
template <class PP, int FIXED>
void run_ppoly(Tape& t, Ctx& ctx, const char* tname) {
  using MatrixType = typename PP::MatrixType;
  ctx.label(std::string("ppoly:") + tname);
  if (ctx.want_desc) ctx.desc << "\"part\": \"ppoly\", \"container\": \"" << tname << "\", \"steps\": [";
  PP obj;
  bool have = false;
  int rounds = t.rangez(1, 6, 3);
  bool nt = false;
  for (int r = 0; r < rounds; ++r) {
    int nb = t.pickw({6, 1, 1, 2}) == 0 ? 2 + t.range(0, 5) : t.range(0, 2);  // number of breakpoints (0,1,2,...)
    int nseg = nb >= 2 ? nb - 1 : 0;
    int maxc = FIXED > 0 ? FIXED : 12;
    int ncoef;
    switch (t.pickw({6, 2, 2})) {
      case 0: ncoef = t.rangez(1, maxc, std::min(3, maxc)); break;
      case 1: ncoef = maxc; break;
      default: ncoef = FIXED > 0 ? FIXED + 1 + t.range(0, 2) : t.range(1, 12); break;
    }
    long rows = (long)std::max(nseg, 0) * ncoef;
    int rc = t.pickw({8, 1, 1, 1, 1});
    if (rc == 1) rows += 1; else if (rc == 2) rows -= 1; else if (rc == 3) rows += ncoef; else if (rc == 4) rows -= ncoef;
    if (rows < 0) rows = 0;
    std::vector<double> bk(nb);
    for (int i = 0; i < nb; ++i) bk[i] = (i == 0 ? t.sym(40) / 4.0 : bk[i - 1] + (1 + t.range(0, 15)) / 8.0);
    MatrixType C(rows, D);
    for (long i = 0; i < rows; ++i) for (int d = 0; d < D; ++d) C(i, d) = ((i * 7 + d * 3) % 11) - 5;
    bool ok_expected = nb >= 2 && rows == (long)nseg * ncoef && (FIXED == 0 || ncoef <= FIXED);
    bool via_update = have ? t.flag() : t.chance(1, 3);
    PP fresh(bk, C, ncoef);
    if (via_update) obj.update(bk, C, ncoef);
    const PP& p = via_update ? obj : fresh;
    if (via_update) have = true;
    const char* how = via_update ? "update" : "constructor";
    if (ok_expected) {
      VCHECK(ctx, p.isInitialized() && p.getNumSegments() == nseg && p.getNumCoeffs() == ncoef && p.getBreakpoints() == bk, "ppoly-valid-rejected",
             tname << " " << how << ": " << nb << " breakpoints, " << rows << " rows, " << ncoef << " coefficients should be accepted (segments reported " << p.getNumSegments() << ")");
    } else {
      VCHECK(ctx, !p.isInitialized() && p.getNumSegments() == 0, "ppoly-invalid-accepted",
             tname << " " << how << ": " << nb << " breakpoints, " << rows << " rows, " << ncoef << " coefficients (fixed order " << FIXED << ") must yield an uninitialised object with no segments; isInitialized="
                   << p.isInitialized() << " segments=" << p.getNumSegments());
      nt = true;
    }
    // checked access
    int segs = ok_expected ? nseg : 0;
    std::vector<int> idx = {INT_MIN, -1, 0, segs - 1, segs, segs + 1, INT_MAX, t.range(-3, segs + 3)};
    for (int i : idx) {
      bool threw = false;
      try { (void)p.at(i); } catch (const std::out_of_range&) { threw = true; }
      bool should = !(i >= 0 && i < segs);
      VCHECK(ctx, threw == should, "at-range", tname << " (" << how << ", segments=" << segs << "): at(" << i << ") " << (threw ? "threw" : "did not throw") << " std::out_of_range");
    }
    ctx.label(ok_expected ? "ppoly:accepted" : "ppoly:rejected");
    ctx.label(via_update ? "ppoly:via-update" : "ppoly:via-ctor");
    if (ctx.want_desc) ctx.desc << (r ? "," : "") << "{\"breakpoints\": " << nb << ", \"rows\": " << rows << ", \"ncoef\": " << ncoef << ", \"how\": \"" << how << "\", \"accept\": " << (ok_expected ? "true" : "false") << "}";
  }
  if (ctx.want_desc) ctx.desc << "]";
  ctx.nontrivial = nt;
}

void check(Tape& t, Ctx& ctx) {
  int part = t.pickw({3, 1});
  if (part == 0) {
    switch (t.range(0, 2)) {
      case 0: run_history<3, CubicSplineND<D>>(t, ctx, "cubic"); break;
      case 1: run_history<5, QuinticSplineND<D>>(t, ctx, "quintic"); break;
      default: run_history<7, SepticSplineND<D>>(t, ctx, "septic"); break;
    }
  } else {
    switch (t.range(0, 2)) {
      case 0: run_ppoly<PPolyND<D>, 0>(t, ctx, "dynamic"); break;
      case 1: run_ppoly<PPolyND<D, 4>, 4>(t, ctx, "fixed4"); break;
      default: run_ppoly<PPolyND<D, 8>, 8>(t, ctx, "fixed8"); break;
    }
  }
}

// ---------------------------------------------------------------- exhaustive single placements
// configuration index -> (order, N, field, special); fields: t0, T[0..N-1], P[(N+1)*D], 6 boundary vectors * D
constexpr int fields_for(int N) { return 1 + N + (N + 1) * D + 6 * D; }
constexpr uint64_t enum_total() {
  uint64_t tot = 0;
  for (int N = 1; N <= 4; ++N) tot += (uint64_t)fields_for(N) * 3;
  return tot * 3;  // three orders
}

template <int ORDER, class Spline>
void single_placement(Tape& t, Ctx& ctx, int N, int field, int sp, const char* oname) {
  using Opt = SplineOptimizer<D, Spline>;
  InitInput in;
  in.T.resize(N);
  for (auto& x : in.T) x = (1 + t.range(0, 63)) / 16.0;
  in.P.resize(N + 1, D);
  for (int i = 0; i <= N; ++i) for (int d = 0; d < D; ++d) in.P(i, d) = t.sym(640) / 64.0;
  in.t0 = t.sym(80) / 8.0;
  auto fillv = [&](Eigen::Matrix<double, D, 1>& v) { for (int d = 0; d < D; ++d) v(d) = t.sym(64) / 16.0; };
  fillv(in.bc.start_velocity); fillv(in.bc.start_acceleration); fillv(in.bc.start_jerk);
  fillv(in.bc.end_velocity); fillv(in.bc.end_acceleration); fillv(in.bc.end_jerk);
  double sv = special(sp);
  std::string fname;
  int f = field;
  if (f == 0) { in.t0 = sv; fname = "start time"; }
  else if ((f -= 1) < N) { in.T[f] = sv; fname = "duration " + std::to_string(f); }
  else if ((f -= N) < (N + 1) * D) { in.P(f / D, f % D) = sv; fname = "waypoint " + std::to_string(f / D) + " coord " + std::to_string(f % D); }
  else {
    f -= (N + 1) * D;
    int which = f / D, d = f % D;
    static const char* names[] = {"start_velocity", "start_acceleration", "start_jerk", "end_velocity", "end_acceleration", "end_jerk"};
    Eigen::Matrix<double, D, 1>* v[] = {&in.bc.start_velocity, &in.bc.start_acceleration, &in.bc.start_jerk, &in.bc.end_velocity, &in.bc.end_acceleration, &in.bc.end_jerk};
    (*v[which])(d) = sv;
    fname = std::string(names[which]) + "[" + std::to_string(d) + "]";
  }
  int off = 0;
  bool expected = expect_valid<ORDER>(in, &off);
  if (ctx.want_desc) ctx.desc << "\"part\": \"single-placement\", \"order\": \"" << oname << "\", \"N\": " << N << ", \"field\": \"" << fname << "\", \"value\": \"" << g17(sv) << "\", \"expected_valid\": " << (expected ? "true" : "false");
  ctx.label(std::string("order:") + oname);
  ctx.label(expected ? "placement-in-unused-field(valid)" : "placement-in-used-field(invalid)");
  // start from a previously valid or a previously invalid object, via the durations route (time points cannot carry a NaN duration cleanly)
  Opt opt;
  if (t.flag()) {
    InitInput ok = in; ok.t0 = 0; for (auto& x : ok.T) x = 1.0; ok.P.setZero(); ok.bc = BoundaryConditions<D>();
    typename Opt::WaypointsType W = ok.P;
    bool r0 = opt.setInitState(ok.T, W, ok.t0, ok.bc);
    VCHECK(ctx, r0, "valid-rejected", oname << ": plain valid problem rejected");
  }
  typename Opt::WaypointsType W = in.P;
  bool ret = opt.setInitState(in.T, W, in.t0, in.bc);
  std::string route = "durations; " + fname + " = " + g17(sv);
  verdict_checks<Opt, ORDER>(ctx, opt, ret, expected, in, route.c_str(), oname);
  ctx.nontrivial = true;
}

void check_enum(Tape& t, Ctx& ctx) {
  uint64_t idx = t.raw() % enum_total();
  int order = (int)(idx % 3); idx /= 3;
  int N = 1;
  for (; N <= 4; ++N) { uint64_t c = (uint64_t)fields_for(N) * 3; if (idx < c) break; idx -= c; }
  int field = (int)(idx / 3), sp = (int)(idx % 3);
  switch (order) {
    case 0: single_placement<3, CubicSplineND<D>>(t, ctx, N, field, sp, "cubic"); break;
    case 1: single_placement<5, QuinticSplineND<D>>(t, ctx, N, field, sp, "quintic"); break;
    default: single_placement<7, SepticSplineND<D>>(t, ctx, N, field, sp, "septic"); break;
  }
}

Registrar reg({"C16", "optimizer validity + PPolyND validity, dim=" + std::to_string(VDIM), 512, 0, check, nullptr});
Registrar rege({"C16e", "single non-finite placement, dim=" + std::to_string(VDIM), 128, enum_total(), check_enum, nullptr});

}  // namespace c16
