// spline_gen.hpp - generated spline problems (durations in the well-scaled domain of DESIGN s4, data, routes) and helpers
#pragma once
#include "vcore.hpp"
#include "ref_poly.hpp"
#include "ref_spline.hpp"
#include "SplineTrajectory.hpp"

namespace vf {

using SplineTrajectory::BoundaryConditions;
using SplineTrajectory::CubicSplineND;
using SplineTrajectory::QuinticSplineND;
using SplineTrajectory::SepticSplineND;

template <int S> struct STag { static constexpr int s = S; };
template <int DIM, int S> struct SplineOf;
template <int DIM> struct SplineOf<DIM, 2> { using type = CubicSplineND<DIM>; static const char* name() { return "cubic"; } };
template <int DIM> struct SplineOf<DIM, 3> { using type = QuinticSplineND<DIM>; static const char* name() { return "quintic"; } };
template <int DIM> struct SplineOf<DIM, 4> { using type = SepticSplineND<DIM>; static const char* name() { return "septic"; } };
inline const char* order_name(int s) { return s == 2 ? "cubic" : (s == 3 ? "quintic" : "septic"); }

template <class F>
inline void with_order(int s, F&& f) {
  if (s == 2) f(STag<2>()); else if (s == 3) f(STag<3>()); else f(STag<4>());
}

// maximum max/min duration ratio of the well-scaled domain (DESIGN s4.1)
inline double wellscaled_ratio(int s) { return s == 2 ? 1000.0 : (s == 3 ? 20.0 : 4.0); }

template <int DIM>
struct SplineCase {
  static constexpr int kOpt = (DIM == 1) ? Eigen::ColMajor : Eigen::RowMajor;
  using MatrixType = Eigen::Matrix<double, Eigen::Dynamic, DIM, kOpt>;
  using Vec = Eigen::Matrix<double, DIM, 1>;
  int s = 2;
  int N = 1;
  std::vector<double> T;
  MatrixType P;
  BoundaryConditions<DIM> bc;
  double t0 = 0;
  // description of how it was generated
  double sigma = 1, ratio = 1;
  int shape = 0;
  std::string dur_shape;
  double M = 0;  // magnitude of the positions (max |P| incl. offset)

  // magnitude of the data of coordinate d that the coefficients are computed from: positions and
  // the boundary derivatives the order-S spline uses, made commensurate with the segment length
  long double data_mag(int d, int S) const {
    long double Md = 0;
    for (int i = 0; i <= N; ++i) Md = std::max(Md, fabsl((long double)P(i, d)));
    long double Tmax = T[0]; for (double x : T) Tmax = std::max<long double>(Tmax, x);
    for (int m = 1; m < S; ++m) {
      long double pw = 1; for (int k = 0; k < m; ++k) pw *= Tmax;
      Md = std::max(Md, fabsl((long double)bc_field(false, m)(d)) * pw);
      Md = std::max(Md, fabsl((long double)bc_field(true, m)(d)) * pw);
    }
    return Md;
  }
  std::vector<double> time_points() const {
    std::vector<double> tp(N + 1);
    tp[0] = t0;
    for (int i = 0; i < N; ++i) tp[i + 1] = tp[i] + T[i];
    return tp;
  }
  const Vec& bc_field(bool end, int m) const {  // m = 1,2,3
    if (!end) return m == 1 ? bc.start_velocity : (m == 2 ? bc.start_acceleration : bc.start_jerk);
    return m == 1 ? bc.end_velocity : (m == 2 ? bc.end_acceleration : bc.end_jerk);
  }
  Vec& bc_field(bool end, int m) {
    if (!end) return m == 1 ? bc.start_velocity : (m == 2 ? bc.start_acceleration : bc.start_jerk);
    return m == 1 ? bc.end_velocity : (m == 2 ? bc.end_acceleration : bc.end_jerk);
  }
  RefProblem ref_problem() const {
    RefProblem p;
    p.s = s; p.N = N; p.dim = DIM;
    p.T.resize(N);
    for (int i = 0; i < N; ++i) p.T(i) = T[i];
    p.P.resize(N + 1, DIM);
    for (int i = 0; i <= N; ++i) for (int d = 0; d < DIM; ++d) p.P(i, d) = P(i, d);
    p.bcS.resize(s - 1, DIM); p.bcE.resize(s - 1, DIM);
    for (int m = 1; m < s; ++m) for (int d = 0; d < DIM; ++d) { p.bcS(m - 1, d) = bc_field(false, m)(d); p.bcE(m - 1, d) = bc_field(true, m)(d); }
    return p;
  }
  std::string describe() const {
    std::ostringstream o;
    o << "\"order\": \"" << order_name(s) << "\", \"dim\": " << DIM << ", \"N\": " << N << ", \"t0\": " << g17(t0) << ", \"sigma\": " << g6(sigma) << ", \"ratio\": " << g6(ratio)
      << ", \"durations\": \"" << dur_shape << "\", \"T\": [";
    for (int i = 0; i < N && i < 12; ++i) o << (i ? "," : "") << g6(T[i]);
    if (N > 12) o << ",\"...\"";
    o << "], \"P_row0\": [";
    for (int d = 0; d < DIM; ++d) o << (d ? "," : "") << g6(P(0, d));
    o << "], \"start_v\": [";
    for (int d = 0; d < DIM; ++d) o << (d ? "," : "") << g6(bc.start_velocity(d));
    o << "], \"magnitude\": " << g6(M);
    return o.str();
  }
};

// ---- number of segments: 1,2,3 over-represented, then up to nmax, occasionally large
inline int gen_N(Tape& t, int nmax = 12, int nbig = 40) {
  int c = t.pickw({3, 3, 3, 8, 1});
  switch (c) {
    case 0: return 1;
    case 1: return 2;
    case 2: return 3;
    case 3: return t.range(4, nmax);
    default: return t.range(nmax + 1, nbig);
  }
}

// ---- durations  T_i = sigma * rho_i,  max/min ratio <= maxratio (and equal to the drawn ratio when N >= 2)
inline void gen_durations(Tape& t, int N, double maxratio, std::vector<double>& T, double* sigma_out, double* ratio_out, std::string* shape_out, int* shape_id = nullptr,
                          double sig_lo_log2 = -3.32, double sig_hi_log2 = 3.32) {
  // overall scale: log-uniform, 8 steps per octave, 0 -> 1 s
  int emax = (int)std::floor(sig_hi_log2 * 8), emin = (int)std::ceil(sig_lo_log2 * 8);
  int e = t.rangez(emin, emax, 0);
  double sigma = std::exp2(e / 8.0);
  int qmax = (int)std::floor(std::log2(maxratio) * 8);
  int q = t.pickw({2, 5, 3}) == 0 ? 0 : (t.flag() ? qmax : t.range(0, qmax));  // ratio: 1, the domain edge, or log-uniform in between
  double ratio = std::exp2(q / 8.0);
  if (q == qmax) ratio = maxratio;
  double lo = 1 / std::sqrt(ratio), hi = std::sqrt(ratio);
  T.assign(N, sigma);
  int shape = t.range(0, 5);
  const char* names[] = {"all-equal", "one-short-among-long", "one-long-among-short", "alternating", "geometric-ramp", "log-uniform", "nearly-equal"};
  if (N == 1) { shape = 0; ratio = 1; }
  if (ratio == 1) shape = 0;
  if (shape == 0) ratio = 1;
  switch (shape) {
    case 0: break;
    case 1: { int pos = t.range(0, N - 1); for (int i = 0; i < N; ++i) T[i] = sigma * (i == pos ? lo : hi); break; }
    case 2: { int pos = t.range(0, N - 1); for (int i = 0; i < N; ++i) T[i] = sigma * (i == pos ? hi : lo); break; }
    case 3: { bool ph = t.flag(); for (int i = 0; i < N; ++i) T[i] = sigma * (((i & 1) != 0) == ph ? lo : hi); break; }
    case 4: { bool rev = t.flag(); for (int i = 0; i < N; ++i) { double f = N == 1 ? 0.5 : (double)i / (N - 1); if (rev) f = 1 - f; T[i] = sigma * lo * std::pow(ratio, f); } break; }
    default: {
      for (int i = 0; i < N; ++i) T[i] = sigma * lo * std::pow(ratio, t.range(0, 64) / 64.0);
      int a = t.range(0, N - 1), b = t.range(0, N - 1);
      if (a == b) b = (a + 1) % N;
      T[a] = sigma * lo; T[b] = sigma * hi;  // both extremes present so the nominal ratio is the actual ratio
      break;
    }
  }
  // nearly equal neighbours: durations that differ by a tiny non-zero amount (a "uniform knots" shortcut with a tolerance instead of
  // exact equality shows only here; seeded C02-3)
  if (N >= 2 && t.chance(1, 8)) {
    int k = t.range(18, 45);
    for (int i = 0; i < N; ++i) T[i] = sigma * (1.0 + t.sym(3) * pow2i(-k));
    shape = 6;
  }
  if (sigma_out) *sigma_out = sigma;
  if (ratio_out) { double mn = T[0], mx = T[0]; for (double x : T) { mn = std::min(mn, x); mx = std::max(mx, x); } *ratio_out = mx / mn; }
  if (shape_out) *shape_out = names[shape];
  if (shape_id) *shape_id = shape;
}

inline double gen_start_time(Tape& t) {
  switch (t.pickw({4, 3, 2, 1, 1})) {
    case 0: return 0.0;
    case 1: return t.sym(800) / 8.0;
    case 2: return 1e3 * t.sym(100);
    case 3: return 1e6 * t.sym(100);
    default: return 1e9;
  }
}

// ---- data: waypoints k/64*10^m (+ optional common offset), boundary derivatives commensurate with the motion
template <int DIM>
inline void gen_data(Tape& t, SplineCase<DIM>& c, bool allow_offset = true) {
  int N = c.N;
  c.P.resize(N + 1, DIM);
  int m = t.rangez(-3, 4, 0);
  double mag = pow10i(m);
  double offs[DIM];
  bool has_off = allow_offset && t.chance(1, 8);
  for (int d = 0; d < DIM; ++d) offs[d] = has_off ? t.sym(1000) * 1e3 : 0.0;
  bool per_point_mag = t.chance(1, 8);
  for (int i = 0; i <= N; ++i) {
    double mg = per_point_mag ? pow10i(t.range(-3, 4)) : mag;
    bool dup = i > 0 && t.chance(1, 10);  // repeated waypoint
    for (int d = 0; d < DIM; ++d) c.P(i, d) = dup ? c.P(i - 1, d) : offs[d] + t.sym(640) / 64.0 * mg;
  }
  // boundary derivatives: class 0 all zero, 1 single non-zero entry, 2 generic
  c.bc = BoundaryConditions<DIM>();
  int cls = t.pickw({2, 1, 6});
  double tsc = c.sigma;
  auto val = [&](int order) {
    int mm = t.rangez(-2, 2, 0);
    return t.sym(640) / 64.0 * pow10i(mm) * mag / std::pow(tsc, order);
  };
  if (cls == 1) {
    bool end = t.flag(); int ord = t.range(1, 3); int d = t.range(0, DIM - 1);
    double v = val(ord); if (v == 0) v = mag / std::pow(tsc, ord);
    c.bc_field(end, ord)(d) = v;
  } else if (cls == 2) {
    for (int e = 0; e < 2; ++e) for (int ord = 1; ord <= 3; ++ord) for (int d = 0; d < DIM; ++d) c.bc_field(e == 1, ord)(d) = val(ord);
    // every zero / non-zero pattern of the six boundary fields occurs (shortcuts keyed on "this field is zero" show only then),
    // and single components that are exactly zero inside an otherwise non-zero field
    if (t.chance(1, 3)) {
      unsigned mask = (unsigned)t.range(0, 63);
      for (int e = 0; e < 2; ++e) for (int ord = 1; ord <= 3; ++ord) if (mask & (1u << (e * 3 + ord - 1))) c.bc_field(e == 1, ord).setZero();
    } else if (t.chance(1, 4)) {
      c.bc_field(t.flag(), t.range(1, 3))(t.range(0, DIM - 1)) = 0.0;
    }
  }
  double M = 0;
  for (int i = 0; i <= N; ++i) for (int d = 0; d < DIM; ++d) M = std::max(M, std::fabs(c.P(i, d)));
  c.M = std::max(M, 1e-300);
}

template <int DIM>
inline SplineCase<DIM> gen_spline_case(Tape& t, int s, double maxratio, int nmax = 12, int nbig = 40, bool allow_offset = true) {
  SplineCase<DIM> c;
  c.s = s;
  c.N = gen_N(t, nmax, nbig);
  gen_durations(t, c.N, maxratio, c.T, &c.sigma, &c.ratio, &c.dur_shape, &c.shape);
  c.t0 = gen_start_time(t);
  gen_data(t, c, allow_offset);
  return c;
}


// natural magnitude of ENERGY gradients built from the data magnitude alone (floors for comparisons when the energy itself is at
// rounding level, e.g. data sampled from a low-degree polynomial):  dE/dP_d ~ Cs*M_d/Tmin^(2s-1),  dE/dbc_m ~ that * Tmax^m,
// dE/dT ~ Cs*sum_d M_d^2/Tmin^(2s),  Cs = ff(2s-1,s)^2
template <int DIM>
inline void energy_nat(const SplineCase<DIM>& c, std::vector<ld>& natP, ld& natT, ld* Tmax_out = nullptr) {
  const int S = c.s, N = c.N;
  ld Tmin = c.T[0], Tmax = c.T[0];
  for (double x : c.T) { Tmin = std::min<ld>(Tmin, x); Tmax = std::max<ld>(Tmax, x); }
  ld Cs = ff(2 * S - 1, S) * ff(2 * S - 1, S), sumM2 = 0;
  natP.assign(DIM, 0);
  for (int d = 0; d < DIM; ++d) {
    ld Md = 0;
    for (int i = 0; i <= N; ++i) Md = std::max(Md, fabsl((ld)c.P(i, d)));
    for (int m = 1; m < S; ++m) { Md = std::max(Md, fabsl((ld)c.bc_field(false, m)(d)) * RefSpline::ipow(c.T[0], m)); Md = std::max(Md, fabsl((ld)c.bc_field(true, m)(d)) * RefSpline::ipow(c.T[N - 1], m)); }
    natP[d] = Cs * Md / RefSpline::ipow(Tmin, 2 * S - 1);
    sumM2 += Md * Md;
  }
  natT = Cs * sumM2 / RefSpline::ipow(Tmin, 2 * S);
  if (Tmax_out) *Tmax_out = Tmax;
}

// a spline object for case c that is, a quarter of the time, NOT fresh: it first held the same problem with one waypoint coordinate
// moved (by a minute or a moderate amount), its trajectory was evaluated at several derivative orders (lazy tables built), and it was
// then updated to c.  Relations that compare "the spline of c" with something else must hold for such an object just the same.
template <int DIM, int S>
inline typename SplineOf<DIM, S>::type build_spline_hist(Tape& t, Ctx& ctx, const SplineCase<DIM>& c, bool by_points = false) {
  using Spline = typename SplineOf<DIM, S>::type;
  if (!t.chance(1, 4)) return by_points ? Spline(c.time_points(), c.P, c.bc) : Spline(c.T, c.P, c.t0, c.bc);
  SplineCase<DIM> old = c;
  int r = t.range(0, c.N), d = t.range(0, DIM - 1);
  double v = old.P(r, d);
  double nv = t.flag() ? v + 0.25 * std::max(1e-3, c.M) : v + (1 + std::fabs(v)) * std::ldexp(1.0, -t.range(20, 44));
  if (nv == v) nv = std::nextafter(v, INFINITY);
  old.P(r, d) = nv;
  Spline sp = by_points ? Spline(old.time_points(), old.P, old.bc) : Spline(old.T, old.P, old.t0, old.bc);
  const auto& tr = sp.getTrajectory();
  for (int k = 0; k <= t.range(0, 3); ++k) (void)tr.evaluate(old.t0 + old.T[0] * (0.125 + 0.25 * k), k);
  if (t.flag()) (void)sp.getEnergy();
  if (by_points) sp.update(c.time_points(), c.P, c.bc); else sp.update(c.T, c.P, c.t0, c.bc);
  ctx.label("object:updated-after-evaluation-of-a-near-identical-problem");
  return sp;
}

// the same problem with `extra` more segments appended (durations and waypoints of the first N segments bit-equal): the
// "larger problem whose prefix is the new problem" an object may have solved before being reused for a truncated trajectory
template <int DIM>
inline SplineCase<DIM> extend_case(Tape& t, const SplineCase<DIM>& c, int extra) {
  SplineCase<DIM> e = c;
  e.N = c.N + extra;
  e.T.resize(e.N);
  e.P.conservativeResize(e.N + 1, DIM);
  for (int i = c.N; i < e.N; ++i) {
    e.T[i] = c.T[t.range(0, c.N - 1)];
    for (int d = 0; d < DIM; ++d) e.P(i + 1, d) = e.P(i, d) + t.sym(64) / 64.0 * std::max(1e-3, c.M) * 0.25;
  }
  double M = 0;
  for (int i = 0; i <= e.N; ++i) for (int d = 0; d < DIM; ++d) M = std::max(M, std::fabs(e.P(i, d)));
  e.M = std::max(M, 1e-300);
  return e;
}

// ---- building library objects
template <int DIM, int S>
inline typename SplineOf<DIM, S>::type build_spline(const SplineCase<DIM>& c) {
  return typename SplineOf<DIM, S>::type(c.T, c.P, c.t0, c.bc);
}

// per-segment absolute-sum scale of the m-th derivative at local time u:  sum_k ff(k,m) |c_k| |u|^(k-m)
template <class CoefMat>
inline ld seg_abs_scale(const CoefMat& C, int seg, int nc, int d, ld u, int m) {
  RefVal r = ref_poly_eval([&](int k) { return C(seg * nc + k, d); }, nc, u, m);
  return r.abssum;
}

template <class A, class B>
inline bool vec_same_bits(const A& a, const B& b) {
  if (a.size() != b.size()) return false;
  for (Eigen::Index i = 0; i < a.size(); ++i) if (!same_val(a(i), b(i))) return false;
  return true;
}
template <class A, class B>
inline bool mat_same_bits(const A& a, const B& b) {
  if (a.rows() != b.rows() || a.cols() != b.cols()) return false;
  for (Eigen::Index i = 0; i < a.rows(); ++i) for (Eigen::Index j = 0; j < a.cols(); ++j) if (!same_val(a(i, j), b(i, j))) return false;
  return true;
}
template <class A, class B>
inline std::string first_diff(const A& a, const B& b) {
  std::ostringstream o;
  if (a.rows() != b.rows() || a.cols() != b.cols()) { o << "shape " << a.rows() << "x" << a.cols() << " vs " << b.rows() << "x" << b.cols(); return o.str(); }
  for (Eigen::Index i = 0; i < a.rows(); ++i) for (Eigen::Index j = 0; j < a.cols(); ++j) if (!same_val(a(i, j), b(i, j))) { o << "(" << i << "," << j << "): " << g17(a(i, j)) << " vs " << g17(b(i, j)); return o.str(); }
  return "none";
}

}  // namespace vf
