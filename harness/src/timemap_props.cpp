// C17 - time maps are smooth increasing bijections onto positive durations.
#include "vcore.hpp"
#include "SplineOptimizer.hpp"

using namespace vf;
using SplineTrajectory::QuadInvTimeMap;
using SplineTrajectory::IdentityTimeMap;

namespace {

const double EPS = DBL_EPSILON;  // 2^-52

long double refT(long double tau) {
  return tau > 0 ? (0.5L * tau * tau + tau + 1.0L) : 1.0L / (0.5L * tau * tau - tau + 1.0L);
}
long double refdT(long double tau) {
  if (tau > 0) return tau + 1.0L;
  long double den = 0.5L * tau * tau - tau + 1.0L;
  return (1.0L - tau) / (den * den);
}

double stepulps(double x, int n) {
  while (n > 0) { x = std::nextafter(x, INFINITY); --n; }
  while (n < 0) { x = std::nextafter(x, -INFINITY); ++n; }
  return x;
}

// tau in [-1e6, 1e6]; word 0 -> 0
double gen_tau(Tape& t, std::string* cls) {
  int c = t.pickw({3, 3, 4, 3, 3, 2});
  double v = 0;
  switch (c) {
    case 0: {  // exactly 0 or a denormal / tiny value
      int k = t.range(0, 4);
      static const double tiny[] = {0.0, 4.9406564584124654e-324, 2.2250738585072014e-308, 1e-300, 1e-200};
      v = tiny[k]; if (t.flag()) v = -v;
      if (cls) *cls = "zero/tiny";
      break;
    }
    case 1: {  // +-2^k, k in [-60, 19]
      int k = t.range(-60, 19);
      v = pow2i(k); if (t.flag()) v = -v;
      if (cls) *cls = "pow2";
      break;
    }
    case 2: {  // k/64
      v = t.sym(64 * 40) / 64.0;
      if (cls) *cls = "k/64";
      break;
    }
    case 3: {  // k/1024 * 10^m, up to 1e6
      int m = t.range(0, 3);
      v = t.sym(1000 * 1024) / 1024.0 * pow10i(m);
      if (cls) *cls = "decimal";
      break;
    }
    case 4: {  // log-uniform small: +-2^(e/8), e in [-480, 0]
      int e = t.range(0, 480);
      v = std::exp2(-e / 8.0); if (t.flag()) v = -v;
      if (cls) *cls = "loguniform-small";
      break;
    }
    default: {  // extremes
      static const double ex[] = {1e6, 999999.9999999999, 1e5, 12345.678, 1.0, 0.5, 2.0, 1e-6};
      v = ex[t.range(0, 7)]; if (t.flag()) v = -v;
      if (cls) *cls = "extreme";
      break;
    }
  }
  int off = t.sym(3);
  v = stepulps(v, off);
  if (v > 1e6) v = 1e6;
  if (v < -1e6) v = -1e6;
  return v;
}

// duration in [1e-6, 1e6]; word 0 -> 1
double gen_T(Tape& t) {
  int c = t.pickw({3, 4, 3, 2});
  double v = 1.0;
  switch (c) {
    case 0: {  // 1 +- 2^-k
      int k = t.range(0, 52);
      v = k == 0 ? 1.0 : (t.flag() ? 1.0 + pow2i(-k) : 1.0 - pow2i(-k - 1));
      break;
    }
    case 1: {  // log-uniform 2^(e/8), e in [-159,159]
      int e = t.sym(159);
      v = std::exp2(e / 8.0);
      break;
    }
    case 2: {  // k/64 * 10^m
      int m = t.range(-4, 3);
      v = (1 + t.range(0, 640)) / 64.0 * pow10i(m);
      break;
    }
    default: {
      static const double ex[] = {1e-6, 1e6, 1e-3, 1e3, 0.5, 2.0, 0.999999, 1.000001};
      v = ex[t.range(0, 7)];
      break;
    }
  }
  v = stepulps(v, t.sym(2));
  if (v < 1e-6) v = 1e-6;
  if (v > 1e6) v = 1e6;
  return v;
}

double gen_g(Tape& t) {
  int c = t.pickw({2, 2, 3, 3});
  switch (c) {
    case 0: return 0.0;
    case 1: return t.flag() ? 1.0 : -1.0;
    case 2: { double v = pow2i(t.sym(40)); return t.flag() ? -v : v; }
    default: return t.sym(64000) / 64.0 * pow10i(t.sym(6));
  }
}

void check_c17(Tape& t, Ctx& ctx) {
  QuadInvTimeMap qm;
  IdentityTimeMap im;
  const int B = 6;  // points per case
  bool first_desc = true;
  for (int b = 0; b < B; ++b) {
    std::string cls;
    double tau = gen_tau(t, &cls);
    double T = qm.toTime(tau);
    long double Tr = refT((long double)tau);
    if (ctx.want_desc && first_desc) {
      ctx.desc << "\"tau\": \"" << hexd(tau) << "\", \"tau_dec\": " << g17(tau) << ", \"class\": \"" << cls << "\", \"toTime\": " << g17(T);
    }
    ctx.label("tau:" + cls);
    if (std::fabs(tau) < pow2i(-20)) { ctx.nontrivial = true; ctx.label("nt:|tau|<2^-20"); }

    // (1) positive, finite, accurate
    VCHECK(ctx, std::isfinite(T) && T > 0.0, "toTime-positive", "toTime(" << g17(tau) << ")=" << g17(T) << " not strictly positive/finite");
    {
      long double err = fabsl((long double)T - Tr) / Tr;
      ctx.maxi("toTime_relerr_eps", (double)(err / EPS));
      VCHECK(ctx, err <= 8 * EPS, "toTime-value", "toTime(" << g17(tau) << ")=" << g17(T) << " vs closed form " << lg(Tr) << " rel err " << lg(err));
    }
    // (2) monotone between adjacent doubles (both neighbours), including across 0
    {
      double up = std::nextafter(tau, INFINITY), dn = std::nextafter(tau, -INFINITY);
      double Tu = qm.toTime(up), Td = qm.toTime(dn);
      VCHECK(ctx, Tu >= T && T >= Td, "monotone-adjacent",
             "toTime not non-decreasing around tau=" << hexd(tau) << ": " << hexd(Td) << " , " << hexd(T) << " , " << hexd(Tu));
      if ((dn <= 0 && up > 0) || (tau <= 0 && up > 0)) { ctx.nontrivial = true; ctx.label("nt:straddles0"); }
    }
    // strictly increasing once the arguments differ by more than rounding
    {
      int gk = t.range(0, 40);
      double gap = 64.0 * EPS * (1.0 + std::fabs(tau)) * pow2i(gk) * 1.0000001;
      double tau2 = tau + gap;
      if (tau2 > tau && tau2 <= 1e6 && (tau2 - tau) > 64.0 * EPS * (1.0 + std::fabs(tau))) {
        double T2 = qm.toTime(tau2);
        VCHECK(ctx, T2 > T, "strict-increase", "toTime(" << hexd(tau2) << ")=" << hexd(T2) << " not > toTime(" << hexd(tau) << ")=" << hexd(T));
        if (tau <= 0 && tau2 > 0) { ctx.nontrivial = true; ctx.label("nt:pair-straddles0"); }
      }
    }
    // (4) round trip tau -> T -> tau
    {
      double back = qm.toTau(T);
      double err = std::fabs(back - tau) / (1.0 + std::fabs(tau));
      ctx.maxi("tau_roundtrip_eps", err / EPS);
      VCHECK(ctx, err <= 64 * EPS, "roundtrip-tau", "toTau(toTime(" << g17(tau) << "))=" << g17(back) << " err/(1+|tau|)=" << g6(err));
    }
    // (5) backward = g * T'(tau)
    double g = gen_g(t);
    {
      double bw = qm.backward(tau, T, g);
      long double ref = (long double)g * refdT((long double)tau);
      long double err = fabsl((long double)bw - ref);
      long double sc = fabsl(ref);
      if (sc > 0) ctx.maxi("backward_relerr_eps", (double)(err / sc / EPS));
      VCHECK(ctx, err <= 16 * EPS * sc, "backward-value",
             "backward(tau=" << g17(tau) << ", g=" << g17(g) << ")=" << g17(bw) << " vs g*T'(tau)=" << lg(ref));
      // linear in g: exact for power-of-two factors
      int k = t.sym(20);
      double bw2 = qm.backward(tau, T, std::ldexp(g, k));
      if (std::isfinite(bw2) && (bw == 0 || std::fabs(bw) > 1e-250) && (bw2 == 0 || std::fabs(bw2) > 1e-250))
        VCHECK(ctx, same_val(bw2, std::ldexp(bw, k)), "backward-linear-pow2",
               "backward(2^" << k << " g) = " << hexd(bw2) << " != 2^k backward(g) = " << hexd(std::ldexp(bw, k)) << " at tau=" << hexd(tau) << " g=" << hexd(g));
      double g2 = gen_g(t);
      double bsum = qm.backward(tau, T, g + g2);
      double b2 = qm.backward(tau, T, g2);
      double scs = std::fabs(bw) + std::fabs(b2);
      VCHECK(ctx, std::fabs(bsum - (bw + b2)) <= 8 * EPS * scs, "backward-additive",
             "backward(g1+g2) != backward(g1)+backward(g2) at tau=" << g17(tau) << " g1=" << g17(g) << " g2=" << g17(g2));
      // the T argument must not matter beyond being toTime(tau) (it is redundant information): passing the exact T is what callers do
      // independent of the reader's algebra: finite differences of the ACTUAL toTime (R5)
      double h = pow2i(-17) * (1.0 + std::fabs(tau));
      if (std::fabs(tau) + h <= 1e6 + 1) {
        auto D = [&](double hh) { return (qm.toTime(tau + hh) - qm.toTime(tau - hh)) / ((tau + hh) - (tau - hh)); };
        double d1 = D(h), d2 = D(h / 2);
        double r = (4 * d2 - d1) / 3;
        double e = std::fabs(d2 - d1);
        double fmax = std::max(std::fabs(qm.toTime(tau + h)), std::fabs(qm.toTime(tau - h)));
        double eta = 8 * EPS * fmax / (h / 2);
        double a = qm.backward(tau, T, 1.0);
        double slack = 2 * e + eta;
        double scale = std::fabs(a);
        if (slack > 1e-6 * scale) ctx.label("fd:loose"); else ctx.label("fd:tight");
        VCHECK(ctx, std::fabs(a - r) <= 1e-6 * scale + slack, "backward-vs-fd",
               "backward(tau,.,1)=" << g17(a) << " vs Richardson FD of toTime " << g17(r) << " (slack " << g6(slack) << ") at tau=" << g17(tau));
      }
    }
    // (6) T -> tau -> T on [1e-6, 1e6]
    {
      double Tq = gen_T(t);
      double tq = qm.toTau(Tq);
      VCHECK(ctx, std::isfinite(tq), "toTau-finite", "toTau(" << g17(Tq) << ") not finite");
      double Tb = qm.toTime(tq);
      double err = std::fabs(Tb / Tq - 1.0);
      ctx.maxi("T_roundtrip_eps", err / EPS);
      VCHECK(ctx, err <= 64 * EPS, "roundtrip-T", "toTime(toTau(" << g17(Tq) << "))=" << g17(Tb) << " rel err " << g6(err));
      // inverse is monotone too (non-decreasing between adjacent doubles)
      double Tq2 = std::nextafter(Tq, INFINITY);
      VCHECK(ctx, qm.toTau(Tq2) >= tq, "toTau-monotone", "toTau not non-decreasing at T=" << hexd(Tq));
      if (std::fabs(Tq - 1.0) <= pow2i(-20)) { ctx.nontrivial = true; ctx.label("nt:T~1"); }
      if (ctx.want_desc && first_desc) ctx.desc << ", \"T\": " << g17(Tq) << ", \"g\": " << g17(g);
      // identity map
      // every value (also zero / negative "durations", which the identity map does not restrict) and every gradient passes through
      VCHECK(ctx, same_bits(im.toTime(Tq), Tq) && same_bits(im.toTau(Tq), Tq) && same_bits(im.toTime(tau), tau) && same_bits(im.toTau(tau), tau) &&
                      same_bits(im.backward(tau, Tq, g), g) && same_bits(im.backward(tau, tau, g), g) && same_bits(im.backward(-Tq, -Tq, std::fabs(g)), std::fabs(g)) &&
                      same_bits(im.backward(0.0, 0.0, g), g) && same_bits(im.backward(tau, -Tq, -g), -g),
             "identity-map", "IdentityTimeMap does not pass values/gradients through unchanged (tau=" << g17(tau) << ", T=" << g17(Tq) << ", g=" << g17(g) << ")");
    }
    first_desc = false;
  }
  // (3) C1 at the switch: one-sided difference quotients and exact value at 0
  {
    int k = t.range(8, 26);
    double h = pow2i(-k);
    double T0 = qm.toTime(0.0), Tm0 = qm.toTime(-0.0);
    VCHECK(ctx, T0 == 1.0 && Tm0 == 1.0, "value-at-0", "toTime(+-0) != 1");
    double qr = (qm.toTime(h) - T0) / h, ql = (T0 - qm.toTime(-h)) / h;
    double tol = h + 8 * EPS / h;
    VCHECK(ctx, std::fabs(qr - 1.0) <= tol && std::fabs(ql - 1.0) <= tol && std::fabs(qr - ql) <= 2 * tol, "c1-at-switch",
           "one-sided slopes at 0 with h=2^-" << k << ": right " << g17(qr) << " left " << g17(ql));
    VCHECK(ctx, qm.backward(0.0, 1.0, 1.0) == 1.0 && qm.backward(-0.0, 1.0, 1.0) == 1.0 &&
                    std::fabs(qm.backward(h, qm.toTime(h), 1.0) - qm.backward(-h, qm.toTime(-h), 1.0)) <= 4 * h,
           "c1-backward-at-switch", "backward discontinuous across tau=0 (h=2^-" << k << ")");
    ctx.label("switch:h=2^-" + std::to_string(k));
  }
  // (4) dense runs: 96 CONSECUTIVE floating-point numbers from a start with a random 52-bit mantissa (not a "nice" value), either
  //     sign, magnitudes 2^-14 ... 2^6.  Every floating-point step of either branch is monotone, so the computed map must be too;
  //     and the inverse likewise over consecutive durations.  Round trips are checked at every point of the run.
  if (t.chance(1, 4)) {
    auto rnd_mant = [&]() { uint64_t m = ((uint64_t)t.raw() << 20) ^ (uint64_t)t.raw(); return (double)(m & ((1ull << 52) - 1)) * pow2i(-52); };
    double tau = std::ldexp(1.0 + rnd_mant(), t.range(-14, 6));
    if (t.flag()) tau = -tau;
    double prev = qm.toTime(tau);
    for (int i = 0; i < 96; ++i) {
      double nx = std::nextafter(tau, INFINITY);
      double Tn = qm.toTime(nx);
      VCHECK(ctx, Tn >= prev, "monotone-adjacent", "toTime decreases between adjacent doubles: toTime(" << hexd(tau) << ")=" << hexd(prev) << " > toTime(" << hexd(nx) << ")=" << hexd(Tn));
      long double rt = fabsl((long double)qm.toTau(Tn) - (long double)nx);
      // the inverse recovers tau to the precision T carries: |d tau| <= (ulp(T)/2 + 8 eps T) / T'(tau) plus rounding of tau itself
      long double slope = refdT((long double)nx);
      long double allow = (16 * EPS * (long double)Tn) / slope + 16 * EPS * fabsl((long double)nx) + 1e-300L;
      VCHECK(ctx, rt <= allow, "roundtrip-tau", "dense run: toTau(toTime(" << hexd(nx) << ")) = " << g17(qm.toTau(Tn)) << ", off by " << lg(rt) << " (allowed " << lg(allow) << ")");
      tau = nx; prev = Tn;
    }
    double Tq = std::ldexp(1.0 + rnd_mant(), t.range(-10, 6));
    double pv = qm.toTau(Tq);
    for (int i = 0; i < 96; ++i) {
      double nx = std::nextafter(Tq, INFINITY);
      double un = qm.toTau(nx);
      VCHECK(ctx, un >= pv, "monotone-adjacent", "toTau decreases between adjacent durations: toTau(" << hexd(Tq) << ")=" << hexd(pv) << " > toTau(" << hexd(nx) << ")=" << hexd(un));
      long double back = qm.toTime(un);
      long double allowT = 16 * EPS * (long double)nx + 16 * EPS * fabsl((long double)un) * refdT((long double)un);
      VCHECK(ctx, fabsl(back - (long double)nx) <= allowT, "roundtrip-T", "dense run: toTime(toTau(" << hexd(nx) << ")) = " << lg(back) << " (allowed deviation " << lg(allowT) << ")");
      Tq = nx; pv = un;
    }
    ctx.label("dense-run");
  }
}

bool selftest_c17(std::string& m) {
  // closed forms vs numerical derivative in long double
  for (long double tau : {-3.0L, -0.5L, -1e-3L, 1e-3L, 0.7L, 10.0L}) {
    long double h = 1e-6L;
    long double fd = (refT(tau + h) - refT(tau - h)) / (2 * h);
    if (fabsl(fd - refdT(tau)) > 1e-9L * fabsl(refdT(tau))) { m = "reference T' disagrees with FD of reference T"; return false; }
  }
  return true;
}

Registrar r17({"C17", "QuadInvTimeMap+IdentityTimeMap", 96, 0, check_c17, selftest_c17});

}  // namespace
