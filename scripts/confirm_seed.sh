#!/bin/bash
# usage: confirm_seed.sh Cxx N   -- independently confirm seeded change N of property Cxx in its scratch worktree /tmp/seed/Cxx
# (demo passes pristine, fails patched; patched tree passes the pinned suite), then store it as /verif/seeded/Cxx-N/.
set -u
ID=$1; N=$2
W=/tmp/seed/$ID; S=$W/seed_out
OUT=/verif/seeded/$ID-$N
[ -f $S/patch$N.diff ] && [ -f $S/demo$N.cpp ] || { echo "missing patch/demo"; exit 2; }
git -C $W checkout -q -- include
OMPF="-fopenmp"; [ -n "${NO_OPENMP:-}" ] && OMPF=""   # NO_OPENMP=1: for changes in the non-OpenMP fallback branches
CXXF="-std=c++17 -O1 -I$W/include -I/usr/include/eigen3 -pthread $OMPF"
T=$(mktemp -d /tmp/confirm.XXXXXX); trap 'rm -rf $T; git -C $W checkout -q -- include' EXIT
g++ $CXXF $S/demo$N.cpp -o $T/demo_pristine 2> $T/err || { cat $T/err | tail; echo "demo does not compile (pristine)"; exit 2; }
( cd $T && timeout 600 ./demo_pristine > $T/out_pristine 2>&1 ); RC0=$?
git -C $W apply $S/patch$N.diff || { echo "patch does not apply"; exit 2; }
FILES=$(git -C $W diff --name-only | tr '\n' ' ')
g++ $CXXF $S/demo$N.cpp -o $T/demo_patched 2> $T/err || { cat $T/err | tail; echo "demo does not compile (patched)"; exit 2; }
( cd $T && timeout 600 ./demo_patched > $T/out_patched 2>&1 ); RC1=$?
SUITE="skipped: patch touches only include/SplineOptimizer.hpp, which no test_*.cpp includes (grep confirmed)"
if echo "$FILES" | grep -q "SplineTrajectory.hpp\|gcopter\|large_scale" || grep -lq "SplineOptimizer" $W/test_*.cpp 2>/dev/null; then
  SUITE=$(/tmp/seedtools/baseline.sh $W 2>&1 | tail -3 | tr '\n' ' ')
fi
echo "$ID-$N: demo pristine rc=$RC0, patched rc=$RC1, suite: $SUITE, files: $FILES"
if [ $RC0 -eq 0 ] && [ $RC1 -ne 0 ] && { echo "$SUITE" | grep -q "36/36\|skipped"; }; then
  mkdir -p $OUT
  cp $S/patch$N.diff $OUT/patch.diff; cp $S/demo$N.cpp $OUT/demo.cpp; cp $S/notes.md $OUT/notes.md
  python3 - "$OUT" "$ID" "$N" "$RC0" "$RC1" "$SUITE" "$FILES" "$T/out_patched" <<'PY'
import sys,json
out,pid,n,rc0,rc1,suite,files,op=sys.argv[1:9]
tail=open(op,errors='replace').read().strip().splitlines()[-6:]
meta={"id":"%s-%s"%(pid,n),"breaks_property":pid,"files_touched":files.split(),
 "origin":"written by an independent sub-agent given only the property text and a scratch worktree (no access to /verif)",
 "needs_to_manifest":"see notes.md (section for patch %s)"%n,
 "confirmed":{"demo_on_pristine_rc":int(rc0),"demo_on_patched_rc":int(rc1),"demo_patched_output_tail":tail,
   "pinned_suite_with_patch":suite.strip(),
   "how":"scripts/confirm_seed.sh: g++ -std=c++17 -O1 demo against pristine and patched scratch worktree; scripts/baseline.sh (CMake Release build + 9 test binaries) on the patched worktree"},
 "caught_by":{}}
json.dump(meta,open(out+"/meta.json","w"),indent=1)
PY
  echo "stored $OUT"
else
  echo "NOT CONFIRMED: $ID-$N"; exit 1
fi
