// ref_poly.hpp - R1: long-double reference evaluation of one polynomial piece with a running error bound.
#pragma once
#include "vcore.hpp"
#include <Eigen/Dense>

namespace vf {

typedef long double ld;

// falling factorial n!/(n-k)!  (exact in long double for n <= 20)
inline ld ff(int n, int k) {
  if (k < 0 || k > n) return 0;
  ld a = 1;
  for (int i = 0; i < k; ++i) a *= (ld)(n - i);
  return a;
}

struct RefVal {
  ld value = 0;   // sum_n ff(n,k) c_n u^(n-k)
  ld abssum = 0;  // sum_n ff(n,k) |c_n| |u|^(n-k)
};

// coefficients c[0..ncoef-1] (ascending powers) of one scalar component
template <class GetC>
inline RefVal ref_poly_eval(GetC&& c, int ncoef, ld u, int k) {
  RefVal r;
  if (k >= ncoef || k < 0) return r;
  ld au = fabsl(u);
  // Horner from the top
  ld v = 0, a = 0;
  for (int n = ncoef - 1; n >= k; --n) {
    ld f = ff(n, k);
    ld cn = (ld)c(n);
    v = v * u + f * cn;
    a = a * au + f * fabsl(cn);
  }
  r.value = v; r.abssum = a;
  return r;
}

// running error bound for a double Horner scheme on the derivative coefficients (see DESIGN s3 R1):
// gamma = 2(n+1) 2^-52 * abssum
inline ld horner_gamma(int ncoef, ld abssum) { return 2.0L * (ncoef + 1) * (ld)DBL_EPSILON * abssum; }

// explicit power sum (independent route used by the self-test)
template <class GetC>
inline ld ref_poly_powersum(GetC&& c, int ncoef, ld u, int k) {
  ld s = 0;
  for (int n = k; n < ncoef; ++n) s += ff(n, k) * (ld)c(n) * powl(u, (ld)(n - k));
  return s;
}

}  // namespace vf
