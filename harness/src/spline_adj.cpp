// spline_adj.cpp - gradient properties of the splines, one binary per spatial dimension (-DVDIM):
//   C05 propagateGrad is the exact adjoint (transpose-Jacobian product) of (waypoints, durations, boundary states) -> (coefficients, durations)
//   C06 analytic energy gradients equal the true derivatives of the reported energy
#include "spline_gen.hpp"

#ifndef VDIM
#define VDIM 3
#endif

using namespace vf;
using namespace SplineTrajectory;

namespace adj {

constexpr int D = VDIM;
static const ld TAU_ADJ = std::getenv("VERIF_DEBUG_TAU_ADJ") ? (ld)std::atof(std::getenv("VERIF_DEBUG_TAU_ADJ")) : 1e-7L;  // debug override only; never set by the driver

// absolute floor (relative to the natural magnitude of an entry of that kind) for components that vanish by exact cancellation
// (structural zeros: symmetry, prescribed coefficients): >= 300x the rounding noise measured there on the pinned tree
// per-order tolerances from the worst errors measured on the pinned tree (thorough tier, 1e6 cases, in units of sigma):
//   propagateGrad with generic upstream gradients   1.0e-12 / 3.1e-10 / 2.7e-9  (cubic / quintic / septic)
//   energy gradients (direct and propagated partials) 2.7e-15 / 9.8e-14 / 1.1e-12
inline ld tau_adj(int S) { return S == 2 ? std::min<ld>(TAU_ADJ, 1e-9L) : TAU_ADJ; }
//   the same with all-equal or nearly-equal durations (ratio <= 1.001), quick tier   5.3e-13 / 1.2e-12 / 5.7e-11
inline ld tau_adj_uniform(int S) { return std::min<ld>(TAU_ADJ, S == 2 ? 1e-9L : (S == 3 ? 1e-9L : 3e-8L)); }
inline ld tau_egrad(int S) { return std::min<ld>(TAU_ADJ, S == 2 ? 1e-11L : (S == 3 ? 1e-10L : 1e-9L)); }
inline ld tau_zero(int S) { return S == 2 ? 1e-12L : (S == 3 ? 1e-11L : 1e-10L); }

// library Gradients -> (theta: [P_0..P_N, start derivs 1..s-1, end derivs 1..s-1] x D, times)
template <int S, class G>
void grads_to_theta(const G& g, int N, MatL& theta, VecL& times) {
  theta = MatL::Zero(N + 1 + 2 * (S - 1), D);
  times.resize(N);
  for (int i = 0; i < N; ++i) times(i) = g.times(i);
  for (int d = 0; d < D; ++d) {
    theta(0, d) = g.start.p(d);
    theta(N, d) = g.end.p(d);
    for (int i = 1; i < N; ++i) theta(i, d) = g.inner_points(i - 1, d);
    theta(N + 1, d) = g.start.v(d);
    theta(N + 1 + (S - 1), d) = g.end.v(d);
    if constexpr (S >= 3) { theta(N + 2, d) = g.start.a(d); theta(N + 2 + (S - 1), d) = g.end.a(d); }
    if constexpr (S >= 4) { theta(N + 3, d) = g.start.j(d); theta(N + 3 + (S - 1), d) = g.end.j(d); }
  }
}
inline std::string theta_name(int r, int N, int S) {
  if (r == 0) return "start.p";
  if (r == N) return "end.p";
  if (r < N) return "inner_points[" + std::to_string(r - 1) + "]";
  int k = r - (N + 1);
  static const char* nm[] = {"v", "a", "j"};
  return std::string(k < S - 1 ? "start." : "end.") + nm[k % (S - 1)];
}

template <int S, class G>
bool grads_same_bits(const G& a, const G& b) {
  if (!mat_same_bits(a.inner_points, b.inner_points) || !vec_same_bits(a.times, b.times)) return false;
  if (!vec_same_bits(a.start.p, b.start.p) || !vec_same_bits(a.end.p, b.end.p) || !vec_same_bits(a.start.v, b.start.v) || !vec_same_bits(a.end.v, b.end.v)) return false;
  if constexpr (S >= 3) if (!vec_same_bits(a.start.a, b.start.a) || !vec_same_bits(a.end.a, b.end.a)) return false;
  if constexpr (S >= 4) if (!vec_same_bits(a.start.j, b.start.j) || !vec_same_bits(a.end.j, b.end.j)) return false;
  return true;
}

// compare a library gradient with the reference adjoint; returns false and fills msg on mismatch
template <int S, class G>
bool compare_with_ref(Ctx& ctx, const G& g, const RefSpline::Adjoint& ref, int N, ld tau, const std::string& what, const char* cls, const char* metric) {
  MatL th; VecL tm;
  grads_to_theta<S>(g, N, th, tm);
  if ((int)g.inner_points.rows() != std::max(0, N - 1) || (int)g.times.size() != N) {
    VFAILNR(ctx, "gradient-shape", what << ": inner_points has " << g.inner_points.rows() << " rows, times has " << g.times.size() << " entries (N=" << N << ")");
    return false;
  }
  for (int r = 0; r < th.rows(); ++r)
    for (int d = 0; d < D; ++d) {
      ld sc = ref.theta_sigma(r, d) + tau_zero(S) / tau * ref.theta_nat(r, d);
      ld e = fabsl(th(r, d) - ref.theta(r, d));
      if (ref.theta_sigma(r, d) >= 1e-3L * ref.theta_nat(r, d) && ref.theta_sigma(r, d) > 0) ctx.maxi(std::string(metric) + (r <= N ? "_points" : "_boundary"), (double)(e / ref.theta_sigma(r, d)));
      else if (ref.theta_nat(r, d) > 0) ctx.maxi(std::string(metric) + "_structural_zero", (double)(e / ref.theta_nat(r, d)));
      if (!(e <= tau * sc + 1e-280L)) {  // + underflow guard
        VFAILNR(ctx, cls, what << ": gradient w.r.t. " << theta_name(r, N, S) << " coordinate " << d << " is " << lg(th(r, d)) << " but the transpose-Jacobian product gives " << lg(ref.theta(r, d))
                               << " (|diff|/sigma = " << lg(sc > 0 ? e / sc : 0) << ", N=" << N << ")");
        return false;
      }
    }
  for (int i = 0; i < N; ++i) {
    ld sc = ref.times_sigma(i) + tau_zero(S) / tau * ref.times_nat(i);
    ld e = fabsl(tm(i) - ref.times(i));
    if (ref.times_sigma(i) >= 1e-3L * ref.times_nat(i) && ref.times_sigma(i) > 0) ctx.maxi(std::string(metric) + "_times", (double)(e / ref.times_sigma(i)));
    else if (ref.times_nat(i) > 0) ctx.maxi(std::string(metric) + "_structural_zero_times", (double)(e / ref.times_nat(i)));
    if (!(e <= tau * sc + 1e-280L)) {
      VFAILNR(ctx, cls, what << ": gradient w.r.t. duration " << i << " is " << lg(tm(i)) << " but the transpose-Jacobian product gives " << lg(ref.times(i)) << " (|diff|/sigma = " << lg(sc > 0 ? e / sc : 0) << ", N=" << N << ")");
      return false;
    }
  }
  return true;
}

template <class MatrixType>
void gen_upstream(Tape& t, int cls, int N, int nc, int S, MatrixType& gC, Eigen::VectorXd& gT, std::string* name) {
  gC = MatrixType::Zero(nc * N, D);
  gT = Eigen::VectorXd::Zero(N);
  auto val = [&]() { return t.sym(640) / 64.0 * pow10i(t.rangez(-2, 2, 0)); };
  // one tape word per row; the D entries of the row are derived from it by a fixed mixing function
  auto fill_row = [&](int r) { uint32_t w = t.raw(); for (int d = 0; d < D; ++d) gC(r, d) = coef_from_word(d == 0 ? w : (w == 0 ? 0u : mix32(w + 0x9e3779b9u * (uint32_t)d))); };
  switch (cls) {
    case 0:  // dense
      for (int r = 0; r < nc * N; ++r) fill_row(r);
      for (int i = 0; i < N; ++i) gT(i) = val();
      *name = "dense";
      break;
    case 1: {  // single unit entry
      int r = t.range(0, nc * N - 1), d = t.range(0, D - 1);
      gC(r, d) = 1.0;
      *name = "unit(c row " + std::to_string(r) + ")";
      break;
    }
    case 2:  // only the rows c_0..c_{s-1} (rows the energy never excites)
      for (int i = 0; i < N; ++i) for (int k = 0; k < S; ++k) fill_row(i * nc + k);
      *name = "low-rows-only";
      break;
    case 3: {  // only one segment's block
      int i = t.range(0, N - 1);
      for (int k = 0; k < nc; ++k) fill_row(i * nc + k);
      *name = "one-segment-block";
      break;
    }
    case 4: {  // zero gdC, unit gdT
      gT(t.range(0, N - 1)) = 1.0;
      *name = "unit(gdT)";
      break;
    }
    default: {  // position-only (c0 rows), sparse
      for (int i = 0; i < N; ++i) if (t.flag()) fill_row(i * nc);
      gC(t.range(0, N - 1) * nc, t.range(0, D - 1)) = 1.0;
      *name = "c0-rows-sparse";
      break;
    }
  }
}

// the object under test propagated gradients (and answered the energy queries) for a LARGER problem before it was updated to this one
template <int S>
void prior_larger_history(Tape& t, Ctx& ctx, typename SplineOf<D, S>::type& sp, SplineCase<D>& c) {
  using Spline = typename SplineOf<D, S>::type;
  using MatrixType = typename Spline::MatrixType;
  constexpr int nc = 2 * S;
  const int N = c.N;
  SplineCase<D> big; big.s = S; big.N = N + 1 + t.range(0, 4);
  gen_durations(t, big.N, wellscaled_ratio(S), big.T, &big.sigma, &big.ratio, &big.dur_shape, &big.shape);
  big.t0 = 0; gen_data(t, big);
  sp = Spline(big.T, big.P, big.t0, big.bc);
  MatrixType jc; Eigen::VectorXd jt; std::string jn;
  gen_upstream(t, 0, big.N, nc, S, jc, jt, &jn);
  (void)sp.propagateGrad(jc, jt);
  if (t.flag()) { (void)sp.getEnergyGrad(); (void)sp.propagateGrad(sp.getEnergyPartialGradByCoeffs(), sp.getEnergyPartialGradByTimes()); }
  if (t.flag()) sp.update(c.T, c.P, c.t0, c.bc); else sp.update(c.time_points(), c.P, c.bc);
  if (!(sp.getTimeSegments() == c.T)) c.T = sp.getTimeSegments();   // the time-point route rounds the durations: the oracle uses what the spline uses
  ctx.label("object:propagated-at-larger-size-before");
}

// ===================================================================================== C05
template <int S>
void c05_case(Tape& t, Ctx& ctx) {
  using Spline = typename SplineOf<D, S>::type;
  using MatrixType = typename Spline::MatrixType;
  using Grads = typename Spline::Gradients;
  constexpr int nc = 2 * S;
  SplineCase<D> c = gen_spline_case<D>(t, S, wellscaled_ratio(S), 10, 16);
  const int N = c.N;
  Spline sp(c.T, c.P, c.t0, c.bc);
  if (t.chance(1, 4)) prior_larger_history<S>(t, ctx, sp, c);
  ctx.label(std::string("order:") + SplineOf<D, S>::name());
  ctx.label(N == 1 ? "N=1" : (N == 2 ? "N=2" : "N>=3"));
  if (ctx.want_desc) ctx.desc << c.describe() << ", \"upstream\": [";
  RefSpline ref;
  ref.solve_problem(c.ref_problem());
  if (!ref.ok) { ctx.label("oracle-inconclusive(R2 residual)"); return; }
  ref.jacobian();
  bool nt = N <= 2;
  int ngr = 3;
  for (int gi = 0; gi < ngr && !ctx.failed; ++gi) {
    int cls = t.range(0, 5);
    MatrixType gC; Eigen::VectorXd gT; std::string gname;
    gen_upstream(t, cls, N, nc, S, gC, gT, &gname);
    if (cls == 6) {}
    ctx.label("upstream:" + gname.substr(0, gname.find('(')));
    if (ctx.want_desc) ctx.desc << (gi ? "," : "") << "\"" << gname << "\"";
    if (cls == 1 || cls == 2 || cls == 5) nt = true;
    // history on the object under test: 0..3 earlier propagations with unrelated gradients, both overloads, interleaved queries
    int hist = t.range(0, 3);
    for (int h = 0; h < hist; ++h) {
      MatrixType jc; Eigen::VectorXd jt; std::string jn;
      gen_upstream(t, t.range(0, 5), N, nc, S, jc, jt, &jn);
      if (t.flag()) { Grads tmp; sp.propagateGrad(jc, jt, tmp); } else (void)sp.propagateGrad(jc, jt);
      if (t.flag()) (void)sp.getEnergy();
      if (t.flag()) (void)sp.getTrajectory().evaluate(c.t0 + 0.5 * c.T[0], t.range(0, 3));
    }
    if (hist) ctx.label("history:prior-propagations");
    Grads g1 = sp.propagateGrad(gC, gT);
    Grads g2; sp.propagateGrad(gC, gT, g2);
    VCHECK(ctx, grads_same_bits<S>(g1, g2), "overloads-differ", SplineOf<D, S>::name() << " N=" << N << ": the value-returning and reference overloads of propagateGrad disagree (upstream " << gname << ")");
    // history independence: a fresh object, first call
    {
      Spline fresh(c.T, c.P, c.t0, c.bc);
      Grads gf = fresh.propagateGrad(gC, gT);
      VCHECK(ctx, grads_same_bits<S>(g1, gf), "history-dependence",
             SplineOf<D, S>::name() << " N=" << N << ": propagateGrad after " << hist << " earlier propagation(s) differs from the first call on a fresh object (upstream " << gname << ")");
    }
    // reference: J^T G + g
    MatL gCl(nc * N, D); VecL gTl(N);
    for (int r = 0; r < nc * N; ++r) for (int d = 0; d < D; ++d) gCl(r, d) = gC(r, d);
    for (int i = 0; i < N; ++i) gTl(i) = gT(i);
    RefSpline::Adjoint ra = ref.adjoint(gCl, gTl);
    std::string what = std::string(SplineOf<D, S>::name()) + " dim=" + std::to_string(D) + " propagateGrad(upstream " + gname + ", durations " + c.dur_shape + " ratio " + g6(c.ratio) + ")";
    const bool uniformish = c.ratio <= 1.001;   // all-equal and nearly-equal durations: far better conditioned, judged with their own tolerance
    if (!compare_with_ref<S>(ctx, g1, ra, N, uniformish ? tau_adj_uniform(S) : tau_adj(S), what, "adjoint-mismatch", (std::string(uniformish ? "adjoint_err_uniform_" : "adjoint_err_") + SplineOf<D, S>::name()).c_str())) return;
    // linearity: exact for power-of-two factors
    {
      // "for any upstream gradient": also very small and very large ones (2^-100 ... 2^100; exact, nothing under- or overflows)
      static const int kBig[] = {-100, -60, -50, -44, -40, 40, 60, 100};
      int k = t.chance(1, 3) ? kBig[t.range(0, 7)] : t.sym(8);
      if (k < -20 || k > 20) ctx.label(k < 0 ? "linearity:tiny-upstream" : "linearity:huge-upstream");
      MatrixType gCs = gC * pow2i(k); Eigen::VectorXd gTs = gT * pow2i(k);
      Grads gs = sp.propagateGrad(gCs, gTs);
      Grads ex = g1;
      ex.inner_points *= pow2i(k); ex.times *= pow2i(k); ex.start.p *= pow2i(k); ex.end.p *= pow2i(k); ex.start.v *= pow2i(k); ex.end.v *= pow2i(k);
      if constexpr (S >= 3) { ex.start.a *= pow2i(k); ex.end.a *= pow2i(k); }
      if constexpr (S >= 4) { ex.start.j *= pow2i(k); ex.end.j *= pow2i(k); }
      VCHECK(ctx, grads_same_bits<S>(gs, ex), "not-linear-pow2", SplineOf<D, S>::name() << " N=" << N << ": propagateGrad(2^" << k << " G) != 2^" << k << " propagateGrad(G) bitwise (upstream " << gname << ")");
    }
    // additivity within tolerance: prop(G1 + G2) = prop(G1) + prop(G2)
    if (gi == 0) {
      MatrixType hC; Eigen::VectorXd hT; std::string hn;
      gen_upstream(t, t.range(0, 5), N, nc, S, hC, hT, &hn);
      MatrixType sC = gC + hC; Eigen::VectorXd sT = gT + hT;
      Grads gh = sp.propagateGrad(hC, hT), gsum = sp.propagateGrad(sC, sT);
      MatL a, b, s3; VecL ta, tb, ts;
      grads_to_theta<S>(g1, N, a, ta); grads_to_theta<S>(gh, N, b, tb); grads_to_theta<S>(gsum, N, s3, ts);
      MatL hCl(nc * N, D); VecL hTl(N);
      for (int r = 0; r < nc * N; ++r) for (int d = 0; d < D; ++d) hCl(r, d) = hC(r, d);
      for (int i = 0; i < N; ++i) hTl(i) = hT(i);
      RefSpline::Adjoint rb = ref.adjoint(hCl, hTl);
      for (int r = 0; r < a.rows(); ++r) for (int d = 0; d < D; ++d)
        VCHECK(ctx, fabsl(s3(r, d) - a(r, d) - b(r, d)) <= TAU_ADJ * (ra.theta_sigma(r, d) + rb.theta_sigma(r, d)) + tau_zero(S) * (ra.theta_nat(r, d) + rb.theta_nat(r, d)), "not-additive",
               SplineOf<D, S>::name() << " N=" << N << ": propagateGrad(G1+G2) != propagateGrad(G1)+propagateGrad(G2) at " << theta_name(r, N, S) << "[" << d << "]");
      for (int i = 0; i < N; ++i)
        VCHECK(ctx, fabsl(ts(i) - ta(i) - tb(i)) <= TAU_ADJ * (ra.times_sigma(i) + rb.times_sigma(i)) + tau_zero(S) * (ra.times_nat(i) + rb.times_nat(i)), "not-additive",
               SplineOf<D, S>::name() << " N=" << N << ": propagateGrad(G1+G2) != propagateGrad(G1)+propagateGrad(G2) at duration " << i);
    }
  }
  if (ctx.want_desc) ctx.desc << "]";
  ctx.nontrivial = nt;
}

// ===================================================================================== C06
template <int S>
void c06_case(Tape& t, Ctx& ctx) {
  using Spline = typename SplineOf<D, S>::type;
  using MatrixType = typename Spline::MatrixType;
  using Grads = typename Spline::Gradients;
  constexpr int nc = 2 * S;
  bool with_fd = t.chance(1, 3);
  SplineCase<D> c = gen_spline_case<D>(t, S, wellscaled_ratio(S), with_fd ? 6 : 10, with_fd ? 8 : 16);
  const int N = c.N;
  // non-zero boundary derivatives in >= 75% of the cases
  {
    bool nz = false;
    for (int m = 1; m < S; ++m) for (int d = 0; d < D; ++d) if (c.bc_field(false, m)(d) != 0 || c.bc_field(true, m)(d) != 0) nz = true;
    const double Mb = c.M > 1e-200 ? c.M : 1.0;
    if (!nz && t.chance(3, 4))
      for (int m = 1; m < S; ++m) for (int d = 0; d < D; ++d) { c.bc_field(false, m)(d) = (1 + t.range(0, 63)) / 16.0 * Mb / std::pow(c.sigma, m); c.bc_field(true, m)(d) = -(1 + t.range(0, 63)) / 16.0 * Mb / std::pow(c.sigma, m); }
    nz = false;
    for (int m = 1; m < S; ++m) for (int d = 0; d < D; ++d) if (c.bc_field(false, m)(d) != 0 || c.bc_field(true, m)(d) != 0) nz = true;
    ctx.nontrivial = nz && N >= 2;
    ctx.label(nz ? "boundary:non-zero" : "boundary:zero");
  }
  Spline sp(c.T, c.P, c.t0, c.bc);
  if (t.chance(1, 4)) prior_larger_history<S>(t, ctx, sp, c);
  ctx.label(std::string("order:") + SplineOf<D, S>::name());
  ctx.label(N == 1 ? "N=1" : (N == 2 ? "N=2" : "N>=3"));
  if (ctx.want_desc) ctx.desc << c.describe() << ", \"finite_differences\": " << (with_fd ? "true" : "false");
  std::string who = std::string(SplineOf<D, S>::name()) + " dim=" + std::to_string(D) + " N=" + std::to_string(N);
  const auto& C = sp.getTrajectory().getCoefficients();
  VecL Tl(N); for (int i = 0; i < N; ++i) Tl(i) = c.T[i];
  // ---- (i) partial gradients of the energy integral, other argument held fixed (R3 on the published coefficients)
  RefEnergy re = ref_energy(C, Tl, S, D, true);
  MatrixType pC = sp.getEnergyPartialGradByCoeffs();
  Eigen::VectorXd pT = sp.getEnergyPartialGradByTimes();
  VCHECK(ctx, pC.rows() == nc * N && pC.cols() == D && pT.size() == N, "partial-shape", who << ": partial gradients have shape " << pC.rows() << "x" << pC.cols() << " / " << pT.size());
  {
    // reference overloads: into an empty buffer, a correctly sized buffer full of garbage, and a wrongly sized one
    MatrixType b1, b2 = MatrixType::Constant(nc * N, D, 12345.678), b3 = MatrixType::Constant(nc * N + 3, D, -7.5);
    sp.getEnergyPartialGradByCoeffs(b1); sp.getEnergyPartialGradByCoeffs(b2); sp.getEnergyPartialGradByCoeffs(b3);
    VCHECK(ctx, mat_same_bits(b1, pC) && mat_same_bits(b2, pC) && mat_same_bits(b3, pC), "partial-overloads",
           who << ": getEnergyPartialGradByCoeffs(buffer) depends on the previous contents/size of the buffer: " << first_diff(b2, pC) << " / " << first_diff(b3, pC));
    Eigen::VectorXd v1, v2 = Eigen::VectorXd::Constant(N, 999.0), v3 = Eigen::VectorXd::Constant(N + 2, -3.0);
    sp.getEnergyPartialGradByTimes(v1); sp.getEnergyPartialGradByTimes(v2); sp.getEnergyPartialGradByTimes(v3);
    VCHECK(ctx, vec_same_bits(v1, pT) && vec_same_bits(v2, pT) && vec_same_bits(v3, pT), "partial-overloads", who << ": getEnergyPartialGradByTimes(buffer) depends on the previous contents/size of the buffer");
  }
  for (int i = 0; i < N; ++i) {
    for (int j = 0; j < nc; ++j)
      for (int d = 0; d < D; ++d) {
        // abs-sum scale of dE/dc_{i,j,d}
        ld sc = 0;
        for (int k = S; k < nc && j >= S; ++k) { int p = j + k - 2 * S + 1; sc += 2 * ff(j, S) * ff(k, S) * RefSpline::ipow(Tl(i), p) / (ld)p * fabsl((ld)C(i * nc + k, d)); }
        ld e = fabsl((ld)pC(i * nc + j, d) - re.dC(i * nc + j, d));
        VCHECK(ctx, e <= 1e-11L * sc + (j < S ? 0 : 1e-290L), "partial-coeffs",
               who << ": dE/dc (segment " << i << ", power " << j << ", coordinate " << d << ") = " << g17(pC(i * nc + j, d)) << " but the derivative of the energy integral is " << lg(re.dC(i * nc + j, d)));
      }
    ld e = fabsl((ld)pT(i) - re.dT(i));
    VCHECK(ctx, e <= 1e-11L * re.dT_abs(i) + 1e-290L, "partial-times", who << ": dE/dT_" << i << " (coefficients fixed) = " << g17(pT(i)) << " but |x^(s)(T)|^2 = " << lg(re.dT(i)));
  }
  // ---- (ii) total gradients vs R4 applied to R3's partials at the reference minimiser (no library code)
  Grads ge = sp.getEnergyGrad();
  {
    Grads ge2; sp.getEnergyGrad(ge2);
    VCHECK(ctx, grads_same_bits<S>(ge, ge2), "overloads-differ", who << ": getEnergyGrad() and getEnergyGrad(out) disagree");
    auto bd = sp.getEnergyGradBoundary();
    bool same = mat_same_bits(ge.inner_points, sp.getEnergyGradInnerPoints()) && vec_same_bits(ge.times, sp.getEnergyGradTimes()) && vec_same_bits(ge.start.p, bd.start.p) &&
                vec_same_bits(ge.end.p, bd.end.p) && vec_same_bits(ge.start.v, bd.start.v) && vec_same_bits(ge.end.v, bd.end.v);
    if constexpr (S >= 3) same = same && vec_same_bits(ge.start.a, bd.start.a) && vec_same_bits(ge.end.a, bd.end.a);
    if constexpr (S >= 4) same = same && vec_same_bits(ge.start.j, bd.start.j) && vec_same_bits(ge.end.j, bd.end.j);
    VCHECK(ctx, same, "overloads-differ", who << ": getEnergyGrad() disagrees with getEnergyGradTimes/InnerPoints/Boundary");
  }
  RefSpline ref;
  ref.solve_problem(c.ref_problem());
  if (!ref.ok) { ctx.label("oracle-inconclusive(R2 residual)"); return; }
  ref.jacobian();
  RefEnergy rr = ref_energy(ref.C, Tl, S, D, true);
  RefSpline::Adjoint total = ref.adjoint(rr.dC, rr.dT);
  {
    // when the energy (hence its partials) is at rounding level - data sampled from a low-degree polynomial, e.g. straight-line motion -
    // sigma and the partial-based natural magnitudes vanish while both sides keep rounding noise of the DATA: add the natural magnitude of
    // an energy gradient built from the data magnitude (false alarm found by the seed sweep, s8 T14)
    std::vector<ld> dn; ld dt_, Tmax;
    energy_nat(c, dn, dt_, &Tmax);
    for (int d = 0; d < D; ++d) {
      for (int r = 0; r <= N; ++r) total.theta_nat(r, d) += dn[d];
      for (int m = 1; m < S; ++m) { total.theta_nat(N + m, d) += dn[d] * RefSpline::ipow(Tmax, m); total.theta_nat(N + (S - 1) + m, d) += dn[d] * RefSpline::ipow(Tmax, m); }
    }
    for (int i = 0; i < N; ++i) total.times_nat(i) += dt_;
  }
  // the adjoint's sigma for the energy: use abs values of the partials (cancellation-aware)
  std::string what = who + " getEnergyGrad (durations " + c.dur_shape + " ratio " + g6(c.ratio) + ")";
  if (!compare_with_ref<S>(ctx, ge, total, N, tau_egrad(S), what, "energy-gradient", (std::string("energy_grad_err_") + SplineOf<D, S>::name()).c_str())) return;
  // ---- (iv) propagating the partials reproduces the analytic gradients
  {
    Grads gp = sp.propagateGrad(pC, pT);
    std::string w2 = who + " propagateGrad(energy partials)";
    if (!compare_with_ref<S>(ctx, gp, total, N, tau_egrad(S), w2, "propagated-partials", (std::string("propagated_partials_err_") + SplineOf<D, S>::name()).c_str())) return;
  }
  // ---- (iii) literally: finite differences of the REPORTED energy (R5)
  if (with_fd) {
    MatL th; VecL tm;
    grads_to_theta<S>(ge, N, th, tm);
    const ld noise_rel = S == 2 ? 1e-13L : (S == 3 ? 1e-11L : 1e-9L);  // rounding level of the reported energy (forward solve), see DESIGN s4.3
    // the perturbed problems are evaluated on ONE long-lived object through a generated update overload (or on fresh objects): the
    // energy that is differentiated is the one a user would read after updating (a memoised energy not invalidated by one of the
    // overloads shows only here; seeded C06-4)
    int fd_route = t.range(0, 2);
    {  // the time-point overload rounds durations to the grid of the knot times: use it only where that rounding is far below the FD step
      double tend = c.t0; for (double x : c.T) tend += x;
      double tmin = *std::min_element(c.T.begin(), c.T.end());
      if (fd_route == 2 && ulp_of(std::max(std::fabs(c.t0), std::fabs(tend))) / tmin > 1e-13) fd_route = 1;
    }
    ctx.label(fd_route == 0 ? "fd:fresh-objects" : (fd_route == 1 ? "fd:reused-object(update durations)" : "fd:reused-object(update time points)"));
    Spline fdobj(c.T, c.P, c.t0, c.bc);
    (void)fdobj.getEnergy();
    auto energy_at = [&](const SplineCase<D>& cc) {
      if (fd_route == 0) { Spline s2(cc.T, cc.P, cc.t0, cc.bc); return (ld)s2.getEnergy(); }
      if (fd_route == 1) fdobj.update(cc.T, cc.P, cc.t0, cc.bc); else fdobj.update(cc.time_points(), cc.P, cc.bc);
      return (ld)fdobj.getEnergy();
    };
    ld E0 = fabsl((ld)sp.getEnergy());
    auto fd_check = [&](const std::string& name, ld analytic, ld sigma, ld nat, double scale, auto&& setter) -> bool {
      auto Dh = [&](double h) {
        SplineCase<D> cp = c, cm = c;
        double hp = setter(cp, +h), hm = setter(cm, -h);
        return (energy_at(cp) - energy_at(cm)) / ((ld)hp - (ld)hm);
      };
      double h = scale * pow2i(-7);
      ld d1 = Dh(h), d2 = Dh(h / 2);
      ld r = (4 * d2 - d1) / 3, e = fabsl(d2 - d1);
      ld eta = (8 * (ld)DBL_EPSILON + noise_rel) * E0 / (h / 2);
      ld slack = 2 * e + eta;
      ld sc = sigma + tau_zero(S) / 1e-7L * nat;
      if (slack > 1e-6L * sc) ctx.label("fd:loose"); else ctx.label("fd:tight");
      if (!(fabsl(analytic - r) <= 1e-6L * sc + slack)) {
        VFAILNR(ctx, "energy-gradient-vs-fd", who << ": analytic dE/d(" << name << ") = " << lg(analytic) << " but central differences of the reported energy give " << lg(r) << " (slack " << lg(slack) << ", sigma " << lg(sc) << ")");
        return false;
      }
      return true;
    };
    for (int i = 0; i < N; ++i)
      if (!fd_check("T_" + std::to_string(i), tm(i), total.times_sigma(i), total.times_nat(i), c.T[i], [&](SplineCase<D>& cc, double h) { cc.T[i] = c.T[i] + h; return cc.T[i]; })) return;
    double pscale = std::max(c.M, 1e-300);
    for (int r = 0; r <= N; ++r)
      for (int d = 0; d < D; ++d)
        if (!fd_check(theta_name(r, N, S) + "[" + std::to_string(d) + "]", th(r, d), total.theta_sigma(r, d), total.theta_nat(r, d), pscale, [&](SplineCase<D>& cc, double h) { cc.P(r, d) = c.P(r, d) + h; return cc.P(r, d); })) return;
    for (int e = 0; e < 2; ++e)
      for (int m = 1; m < S; ++m)
        for (int d = 0; d < D; ++d) {
          int r = N + 1 + e * (S - 1) + (m - 1);
          double bscale = std::max(std::fabs(c.bc_field(e == 1, m)(d)), pscale / std::pow(c.sigma, m));
          if (!fd_check(theta_name(r, N, S) + "[" + std::to_string(d) + "]", th(r, d), total.theta_sigma(r, d), total.theta_nat(r, d), bscale,
                        [&](SplineCase<D>& cc, double h) { cc.bc_field(e == 1, m)(d) = c.bc_field(e == 1, m)(d) + h; return cc.bc_field(e == 1, m)(d); })) return;
        }
    ctx.label("oracle:finite-differences");
  }
}

void c05(Tape& t, Ctx& ctx) { with_order(2 + t.range(0, 2), [&](auto tag) { c05_case<decltype(tag)::s>(t, ctx); }); }
void c06(Tape& t, Ctx& ctx) { with_order(2 + t.range(0, 2), [&](auto tag) { c06_case<decltype(tag)::s>(t, ctx); }); }

bool selftest(std::string& msg) {
  // R4 against central differences of R2 in long double
  for (int s = 2; s <= 4; ++s) {
    RefProblem p; p.s = s; p.N = 3; p.dim = 2;
    p.T.resize(3); p.T << 0.75L, 1.875L, 0.5L;
    p.P.resize(4, 2); p.P << 0.5L, 1.0L, -1.25L, 0.25L, 2.0L, -0.5L, 0.75L, 1.5L;
    p.bcS = MatL::Constant(s - 1, 2, 0.25L); p.bcE = MatL::Constant(s - 1, 2, -0.125L);
    RefSpline r; r.solve_problem(p); r.jacobian();
    if (!r.ok) { msg = "R2 residual"; return false; }
    int n = r.n;
    // a fixed upstream gradient
    MatL G(n, 2); VecL g(3);
    for (int i = 0; i < n; ++i) for (int d = 0; d < 2; ++d) G(i, d) = ((i * 7 + d * 3) % 11) - 5;
    g << 0.5L, -1.0L, 2.0L;
    RefSpline::Adjoint a = r.adjoint(G, g);
    auto L = [&](const RefProblem& q) { RefSpline x; x.solve_problem(q); ld v = 0; for (int i = 0; i < n; ++i) for (int d = 0; d < 2; ++d) v += G(i, d) * x.C(i, d); for (int i = 0; i < 3; ++i) v += g(i) * q.T(i); return v; };
    ld h = 1e-6L;
    for (int i = 0; i < 3; ++i) { RefProblem a1 = p, a2 = p; a1.T(i) += h; a2.T(i) -= h; ld fd = (L(a1) - L(a2)) / (2 * h); if (fabsl(fd - a.times(i)) > 1e-8L * (a.times_sigma(i) + 1)) { msg = "R4 d/dT disagrees with FD of R2"; return false; } }
    for (int i = 0; i < 4; ++i) for (int d = 0; d < 2; ++d) { RefProblem a1 = p, a2 = p; a1.P(i, d) += h; a2.P(i, d) -= h; ld fd = (L(a1) - L(a2)) / (2 * h); if (fabsl(fd - a.theta(i, d)) > 1e-8L * (a.theta_sigma(i, d) + 1)) { msg = "R4 d/dP disagrees with FD of R2"; return false; } }
    for (int m = 0; m < s - 1; ++m) for (int d = 0; d < 2; ++d) {
      RefProblem a1 = p, a2 = p; a1.bcS(m, d) += h; a2.bcS(m, d) -= h; ld fd = (L(a1) - L(a2)) / (2 * h);
      if (fabsl(fd - a.theta(4 + m, d)) > 1e-8L * (a.theta_sigma(4 + m, d) + 1)) { msg = "R4 d/d(start bc) disagrees with FD of R2"; return false; }
      a1 = p; a2 = p; a1.bcE(m, d) += h; a2.bcE(m, d) -= h; fd = (L(a1) - L(a2)) / (2 * h);
      if (fabsl(fd - a.theta(4 + (s - 1) + m, d)) > 1e-8L * (a.theta_sigma(4 + (s - 1) + m, d) + 1)) { msg = "R4 d/d(end bc) disagrees with FD of R2"; return false; }
    }
  }
  return true;
}

Registrar r05({"C05", "splines dim=" + std::to_string(VDIM), 2400, 0, c05, selftest});
Registrar r06({"C06", "splines dim=" + std::to_string(VDIM), 900, 0, c06, nullptr});

}  // namespace adj
